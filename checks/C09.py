"""C09 — ownership invariants survive any API history; bad arguments never crash."""
import random, itertools
from vlib.common import *
from checks.C13 import split_top

MODELS, COMPS, VARS, UNITS, RESETS = [0, 1], [2, 3, 4], [5, 6, 7], [8, 9], [10, 11]
NULL = 99
KINDS = {'comp': COMPS, 'var': VARS, 'reset': RESETS, 'units': UNITS}
NAMES = {'comp': ['a', 'b', 'zz'], 'var': ['x', 'y', 'zz'], 'units': ['u', 'zz'], 'reset': ['r']}


def H(s):
    return '#' + s.encode().hex()


def all_ops():
    """the whole operation alphabet over the universe (used exhaustively for short histories)"""
    ops = []
    for c in COMPS:
        for x in COMPS + [NULL]: ops.append('(ac %d %d)' % (c, x))
        for x in VARS + [NULL]: ops.append('(av %d %d)' % (c, x))
        for x in RESETS + [NULL]: ops.append('(ar %d %d)' % (c, x))
    for m in MODELS:
        for x in COMPS + [NULL]: ops.append('(am %d %d)' % (m, x))
        for x in UNITS + [NULL]: ops.append('(au %d %d)' % (m, x))
    for c in MODELS + COMPS:
        for k, objs in KINDS.items():
            if (k == 'units') != (c in MODELS) and k != 'comp': continue
            for i in (0, 1, 5): ops.append('(ri %d %s %d)' % (c, k, i))
            for x in objs + [NULL]: ops.append('(rp %d %s %d)' % (c, k, x))
            if k != 'reset':
                for n in NAMES[k]: ops.append('(rn %d %s %s)' % (c, k, H(n)))
            ops.append('(ra %d %s)' % (c, k))
    for v in VARS + [NULL]:
        for w in VARS + [NULL]:
            ops.append('(ae %d %d)' % (v, w)); ops.append('(re %d %d)' % (v, w))
    for v in VARS: ops.append('(rae %d)' % v)
    for v in VARS: ops.append('(rel %d)' % v)
    for x in MODELS + COMPS: ops.append('(cl %d)' % x)
    for c in MODELS + COMPS:
        for i in (0, 1, 5):
            for x in COMPS + [NULL]: ops.append('(rc %d %d %d)' % (c, i, x))
    for m in MODELS:
        for i in (0, 1, 5):
            for x in UNITS + [NULL]: ops.append('(ru %d %d %d)' % (m, i, x))
    return ops


def parse_graph(d):
    g = {}
    for part in d.split(' | '):
        f = part.split(':')
        lst = lambda s: [int(x) if x.isdigit() else x for x in s.split(',') if x != '']
        g[int(f[0])] = dict(parent=f[1], comp=lst(f[2]), var=lst(f[3]), reset=lst(f[4]), units=lst(f[5]), equiv=lst(f[6]))
    return g


def oracle(g):
    bad = []
    seen = {}
    for c, o in g.items():
        for k in ('comp', 'var', 'reset', 'units'):
            for x in o[k]:
                if not isinstance(x, int): bad.append('container %d lists an unknown object' % c); continue
                if g[x]['parent'] != str(c): bad.append('%d is listed by %d but reports parent %s' % (x, c, g[x]['parent']))
                if x in seen: bad.append('%d is listed twice (by %d and by %d)' % (x, seen[x], c))
                seen[x] = c
    for x in g:      # acyclic hierarchy
        cur, steps = x, 0
        while g[cur]['parent'].isdigit() and steps <= len(g):
            cur = int(g[cur]['parent']); steps += 1
        if steps > len(g): bad.append('the hierarchy above %d is cyclic' % x)
    for v, o in g.items():
        for w in o['equiv']:
            if not isinstance(w, int): bad.append('%d is equivalent to a destroyed / unknown variable' % v)
            elif v not in g[w]['equiv']: bad.append('%d lists %d as equivalent, not conversely' % (v, w))
    return bad


KEY = {'comp': 'comp', 'var': 'var', 'reset': 'reset', 'units': 'units'}


def frame(op, prev, cur):
    """removal, take, replacement or moving of an object affects exactly the objects involved: every object whose record
    (parent, child lists, equivalences) changed must be one the operation is about"""
    t = op[1:-1].split()
    h = t[0]
    def kids(c, k): return [x for x in prev.get(c, {}).get(k, []) if isinstance(x, int)]
    def par(x):
        p = prev.get(x, {}).get('parent', '-')
        return int(p) if p.isdigit() else None
    allowed = set()
    if h in ('ac', 'am', 'av', 'ar', 'au'):
        c, x = int(t[1]), int(t[2]); k = {'ac': 'comp', 'am': 'comp', 'av': 'var', 'ar': 'reset', 'au': 'units'}[h]
        allowed = {c, x}
        p = par(x)
        if p is not None:
            allowed.add(p)
            if x not in kids(p, k): allowed |= set(kids(p, k))
    elif h == 'ri':
        c, k, i = int(t[1]), t[2], int(t[3]); l = kids(c, k)
        allowed = {c} | ({l[i]} if i < len(l) else set())
    elif h == 'rp':
        c, k, x = int(t[1]), t[2], int(t[3])
        allowed = {c, x} if x in kids(c, k) else {c} | set(kids(c, k))
    elif h in ('rn', 'ra'):
        c, k = int(t[1]), t[2]; allowed = {c} | set(kids(c, k))
    elif h in ('ae', 're'):
        allowed = {int(t[1]), int(t[2])}
    elif h == 'rae':
        v = int(t[1]); allowed = {v} | set(x for x in prev.get(v, {}).get('equiv', []) if isinstance(x, int))
    elif h == 'cl':
        allowed = set()
    elif h == 'rel':
        v = int(t[1]); allowed = {v} | set(x for x in prev if v in prev[x].get('equiv', []))
    elif h in ('rc', 'ru'):
        c, i, x = int(t[1]), int(t[2]), int(t[3]); k = 'comp' if h == 'rc' else 'units'; l = kids(c, k)
        allowed = {c, x} | ({l[i]} if i < len(l) else set())
        p = par(x)
        if p is not None:
            allowed.add(p)
            if x not in kids(p, k): allowed |= set(kids(p, k))
    changed = [x for x in cur if prev.get(x) != cur[x]]
    return ['%s changed object %d, which it is not about' % (op, x) for x in changed if x not in allowed]


def is_readd(op, g):
    """adding an entity to the container that already holds it (outside the claim)"""
    t = op[1:-1].split()
    if t[0] in ('ac', 'am', 'av', 'ar', 'au'):
        c, x = int(t[1]), int(t[2])
        return x in g and g[x]['parent'] == str(c)
    if t[0] in ('rc', 'ru'):
        c, x = int(t[1]), int(t[3])
        return False
    return False


def run(chk, replay=None):
    lib = build_lib()
    hx = build_hx('hx_heap', lib)
    leandir, ok, out, changed = standard_lean(chk, 'C09')
    chk.assumptions += [
        'universe: 2 models, 3 components (two identical), 3 variables (two identical), 2 identical units, 2 identical resets; null pointers, out-of-range indices and unknown names are part of the operation alphabet',
        'structural equality used by pointer lookups is a parameter of the theorems; the engine instantiates it with the C10 model evaluated on the heap',
        'partial: memory safety (null / dangling dereference) is runtime behaviour — the model says "refused, unchanged", a crash of the harness is reported with the history as replay; owner release is modelled for variables that no component owns (`rel`: the object dies and its entries in other variables\' weak equivalence lists expire; the identifier is reused for a fresh variable); release of other objects is not part of this engine; the service entry points (validator, analyser and its external variables, analyser-model queries, generator, annotator, importer, printer) and the getters / mutators of the object model are audited with null pointers, entities never added to a model, entities whose owner is destroyed, out-of-range indices and unknown names by harness/hx_badargs.cpp (each probe in a child process: must return, must refuse)',
        'adding an entity to the container that already holds it is outside the claim (existing tests pin the double listing): the oracle stops at such a step, the correspondence continues']
    chk.cov['trusted_base'] += ['harness/hx_heap.cpp, lean/Cellml/Engine/Heap.lean', 'python history generator and graph oracle (checks/C09.py)']
    if not ok:
        chk.violation('Lean obligations of C09 no longer check: ' + out[-1500:], {'kind': 'proof', 'theorem_or_build_log': out[-3000:]}, False)
    drv = drv_path(leandir)
    if not os.path.exists(drv):
        return
    rng = random.Random(chk.seed)
    alpha = all_ops()
    if replay:
        lines = json.load(open(replay))['lines']
    else:
        lines = ['(heap %s)' % o for o in alpha]                         # every single operation on the empty graph
        setup = ['(am 0 2)', '(am 0 3)', '(ac 2 4)', '(av 2 5)', '(av 3 6)', '(av 4 7)', '(au 0 8)', '(au 1 9)', '(ar 2 10)', '(ar 3 11)', '(ae 5 6)', '(ae 6 7)']
        lines += ['(heap %s %s)' % (' '.join(setup), o) for o in alpha]   # … and after a populated start (exhaustive in the last step)
        pairs = 1500 if chk.tier == 'quick' else 20000
        for _ in range(pairs):                                          # random pairs after the populated start
            lines.append('(heap %s %s %s)' % (' '.join(setup), rng.choice(alpha), rng.choice(alpha)))
        # histories about variables only: equivalences added and removed, variables moved, and the last reference to a
        # parentless variable dropped (its entries in other variables' weak equivalence lists expire)
        valpha = [o for o in alpha if o.split()[0] in ('(ae', '(re', '(rae', '(rel', '(av', '(cl', '(am', '(ac') and ' %d' % NULL not in o] + ['(ri %d var 0)' % c for c in COMPS]
        for _ in range(1500 if chk.tier == 'quick' else 30000):
            lines.append('(heap %s)' % ' '.join(rng.choice(valpha) for _ in range(rng.randint(3, 10))))
        # exhaustively: every order of two or three equivalences among the three variables (one of them owned by a
        # component or none), followed by every pair (thorough: triple) of release / removeAllEquivalences / removeEquivalence / addEquivalence
        vp = [(5, 6), (5, 7), (6, 7)]
        tails = ['(rel %d)' % v for v in VARS] + ['(rae %d)' % v for v in VARS] + ['(re %d %d)' % p for p in vp] + ['(ae %d %d)' % p for p in vp] + ['(cl 0)', '(cl 2)']
        for own in ([], ['(am 0 2)', '(av 2 5)'], ['(am 0 2)', '(av 2 6)']):
            for n in (2, 3):
                for pre in itertools.permutations(vp, n):
                    for tl in itertools.product(tails, repeat=2 if chk.tier == 'quick' else 3):
                        lines.append('(heap %s)' % ' '.join(own + ['(ae %d %d)' % p for p in pre] + list(tl)))
        nrand = 1500 if chk.tier == 'quick' else 30000
        for _ in range(nrand):
            k = rng.randint(3, 14)
            lines.append('(heap %s)' % ' '.join(rng.choice(alpha) for _ in range(k)))
    rc, impl, e1 = run_lines_parallel(hx, [], lines)
    crashed = []
    if len(impl) != len(lines):
        # a chunk died: find the histories on which the library crashes
        impl = []
        for l in lines:
            rc1, o, _ = run_lines(hx, [], [l])
            if not o or not o[0].startswith('(r'):
                crashed.append(l); impl.append('CRASH')
            else:
                impl.append(o[0])
    _, model, e2 = run_lines_parallel(drv, ['heap'], lines)
    disagree, orafail = [], []
    nops = 0; tainted = 0
    for l, x, y in zip(lines, impl, model):
        ops = split_top(l[1:-1])[0:]
        ops = split_top(l[6:-1])
        if x == 'CRASH':
            continue
        rx, ry = split_top(x[3:-1]), split_top(y[3:-1]) if y.startswith('(r') else []
        prev = None
        taint = False
        for k, (op, a) in enumerate(zip(ops, rx)):
            nops += 1
            g = parse_graph(a[3:-1])
            if prev is not None and is_readd(op, prev): taint = True
            if prev is None and False: pass
            if not taint:
                bad = oracle(g)
                if prev is not None:
                    bad += frame(op, prev, g)
                    if a[1] == '0' and g != prev:
                        bad.append('%s returned false but changed the object graph' % op)
                if bad:
                    orafail.append((l, 'after step %d %s: %s' % (k, op, '; '.join(bad[:3])))); break
            if k >= len(ry) or a != ry[k]:
                disagree.append((l, 'step %d %s: impl %s' % (k, op, a[:160]), 'model %s' % (ry[k][:160] if k < len(ry) else y[:80]))); break
            prev = g
        tainted += taint
    chk.cov.update(evaluations=nops, distinct_nontrivial=len(set(lines)),
                   rule='histories over the 12-object universe: every operation of the alphabet (%d operations incl. null pointers, out-of-range indices, unknown names) on the empty and on a populated graph (exhaustive in the last step), random pairs after the populated start, random histories of 3-14 operations, random histories of 3-10 operations about variables only (equivalences, moves, release of parentless variables), every order of 2-3 equivalences among the three variables followed by every pair (thorough: triple) of release / removeAllEquivalences / removeEquivalence / addEquivalence; '
                        'after every operation the whole object graph is dumped and compared; one evaluation = one operation' % len(alpha),
                   samples=[lines[5], impl[5][:200], lines[-1][:200]], traces_validated_against_impl=len(lines) - len(disagree), exhaustive=False,
                   histories=len(lines), alphabet=len(alpha), histories_outside_claim=tainted, crashed_histories=len(crashed))
    # the services that accept entities, with null pointers, entities never added to a model, entities whose owner is destroyed,
    # out-of-range indices and unknown names (each probe in a child process of harness/hx_badargs.cpp)
    if not replay:
        hb = build_hx('hx_badargs', lib)
        r = subprocess.run([hb], capture_output=True, text=True, timeout=1200)
        probes = [l.split('\t') for l in r.stdout.split('\n') if '\t' in l]
        chk.cov['bad_argument_probes'] = {'probes': len(probes), 'ok': sum(1 for p in probes if p[1] == 'ok'), 'names': [p[0] for p in probes]}
        if len(probes) < 30:
            chk.violation('the bad-argument audit did not run to its end: %d probes reported' % len(probes), {'kind': 'crash', 'engine': 'badargs', 'output': r.stdout[-2000:]}, False)
        for name, res in probes:
            if res != 'ok':
                what = {'accepted': 'accepts an argument it must refuse (or reports nothing)', 'hang': 'does not return'}.get(res, 'crashes (%s)' % res)
                chk.violation('a public call with a null / foreign / destroyed / out-of-range argument %s: %s' % (what, name),
                              {'kind': 'crash', 'engine': 'badargs', 'probe': name, 'result': res, 'how': 'harness/hx_badargs.cpp runs the probe of that name'}, True)
    for l in crashed[:3]:
        chk.violation('the library crashes on an API history (memory safety: no call may crash): ' + l[:300], {'kind': 'crash', 'engine': 'heap', 'lines': [l]}, True)
    for l, why in orafail[:3]:
        chk.violation('ownership invariant broken on the implementation: ' + why, {'kind': 'oracle', 'engine': 'heap', 'lines': [l], 'why': why}, True)
    if not orafail and not crashed:
        for l, x, y in disagree[:3]:
            chk.violation('heap model and implementation disagree (correspondence `heap` broken): %s / %s' % (x, y), {'kind': 'correspondence', 'engine': 'heap', 'lines': [l], 'impl': x, 'model': y}, False)
