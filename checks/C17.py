"""C17 — generated code's declared structure matches the analysed model."""
import random, sys, tempfile, shutil, subprocess, types
from vlib.common import *
sys.path.insert(0, os.path.join(ROOT, 'gen'))
sys.path.insert(0, os.path.join(ROOT, 'pygen'))
import tables
import exprs as X
import models as M

TYNAT = {'variable_of_integration': 0, 'state': 1, 'constant': 2, 'computed_constant': 3, 'algebraic': 4, 'external': 5}
VALID = ('algebraic', 'ode', 'nla', 'dae')
MIXING = ('-Wint-in-bool-context', '-Wbool-compare', '-Wlogical-not-parentheses', '-Wbool-operation', '-Wparentheses', '-Wabsolute-value', '-Wdiv-by-zero')


def dec(h):
    return bytes.fromhex(h[1:]).decode('latin-1') if h.startswith('#') else h


def sections(out):
    info = out[out.index('=====INFO') + 10:out.index('=====IFACE')]
    iface = out[out.index('=====IFACE') + 11:out.index('=====IMPL')]
    impl = out[out.index('=====IMPL') + 10:]
    return info, iface, impl


def parse_info(info):
    d = {'voi': [], 'state': [], 'variable': [], 'asts': [], 'need': [], 'type': None, 'externals': '0'}
    for l in info.split('\n'):
        t = l.split()
        if not t:
            continue
        if t[0] == 'type':
            d['type'] = t[1]
        elif t[0] == 'xvoi':
            d['voi'].append((dec(t[1]), dec(t[2]), dec(t[3]), t[4]))
        elif t[0] in ('xstate', 'xvariable'):
            d[t[0][1:]].append((dec(t[2]), dec(t[3]), dec(t[4]), t[5]))
        elif t[0] == 'ast':
            d['asts'].append(l.split(' ', 2)[2])
        elif t[0] == 'need':
            d['need'] = t[1:]
        elif t[0] == 'externals':
            d['externals'] = t[1]
    return d


def parse_generated(prof, iface, impl):
    """what the generated text declares"""
    g = {}
    if prof == 'C':
        m = re.search(r'const size_t STATE_COUNT = (\d+);', impl); g['state_count'] = int(m.group(1)) if m else None
        m = re.search(r'const size_t VARIABLE_COUNT = (\d+);', impl); g['variable_count'] = int(m.group(1)) if m else None
        for f in ('name', 'units', 'component'):
            m = re.search(r'char %s\[(\d+)\];' % f, iface); g['size_' + f] = int(m.group(1)) if m else None
        ent = r'\{"([^"]*)", "([^"]*)", "([^"]*)", (\w+)\}'
        m = re.search(r'const VariableInfo VOI_INFO = ' + ent + ';', impl); g['voi'] = [m.groups()] if m else []
        m = re.search(r'const VariableInfo STATE_INFO\[\] = \{\n(.*?)\n?\};', impl, re.S); g['state'] = re.findall(ent, m.group(1)) if m else []
        m = re.search(r'const VariableInfo VARIABLE_INFO\[\] = \{\n(.*?)\n?\};', impl, re.S); g['variable'] = re.findall(ent, m.group(1)) if m else []
    else:
        m = re.search(r'^STATE_COUNT = (\d+)$', impl, re.M); g['state_count'] = int(m.group(1)) if m else None
        m = re.search(r'^VARIABLE_COUNT = (\d+)$', impl, re.M); g['variable_count'] = int(m.group(1)) if m else None
        ent = r'\{"name": "([^"]*)", "units": "([^"]*)", "component": "([^"]*)", "type": VariableType\.(\w+)\}'
        m = re.search(r'^VOI_INFO = ' + ent, impl, re.M); g['voi'] = [m.groups()] if m else []
        m = re.search(r'^STATE_INFO = \[\n(.*?)\n?\]', impl, re.S | re.M); g['state'] = re.findall(ent, m.group(1)) if m else []
        m = re.search(r'^VARIABLE_INFO = \[\n(.*?)\n?\]', impl, re.S | re.M); g['variable'] = re.findall(ent, m.group(1)) if m else []
    return g


def run(chk, replay=None):
    lib = build_lib()
    hx = build_hx('hx_expr', lib)
    hxg = build_hx('hx_gencode', lib)
    _, prof, _ = run_lines(hx, ['profile'], [])
    _, meth, _ = run_lines(hx, ['methods'], [])
    _, hl, _ = run_lines(hx, ['helpers'], [])
    gen = {'Cellml/Generated/Profiles.lean': tables.profiles_table('\n'.join(prof)),
           'Cellml/Generated/Methods.lean': tables.methods_table('\n'.join(meth), '\n'.join(hl)),
           'Cellml/Generated/NeedFlags.lean': tables.need_flags_table(REPO)}
    leandir, ok, out, changed = standard_lean(chk, 'C17', gen)
    chk.assumptions += [
        'the Lean model predicts counts, info entries, buffer sizes and the emitted helper set from the analysed model (variables, equation ASTs); the text layout around them (templates of the profile) is parsed by the check, not modelled',
        'helper emission: "called => emitted" is proved for every expression tree (theorem helpers_defined); "emitted => called" is proved only as "emitted => need-flag set by some equation" (emitted_needed) and checked on the generated text',
        'the need-flags are modelled as a traversal of the equation ASTs the analysed model exposes; the real flags are set by analyseNode on the MathML (compared on every generated system)',
        'compiler acceptance (gcc -std=c99 -Wall -Wextra) and Python loading are observed on generated systems, not proved',
        'names, units and component names are CellML identifiers (no quote or bracket characters)']
    chk.cov['trusted_base'] += ['harness/hx_gencode.cpp, hx_expr.cpp + lean/Cellml/Engine/Struct.lean', 'gen/tables.py (profile, method and helper tables)',
                                'checks/C17.py: parser of the generated text; gcc and python3']
    if not ok:
        chk.violation('Lean obligations of C17 no longer check: ' + out[-1500:], {'kind': 'proof', 'theorem_or_build_log': out[-3000:], 'changed_tables': changed}, False)
    drv = drv_path(leandir)
    helper_sig = {'C': {}, 'PY': {}}
    for l in hl:
        t = l.split()
        if len(t) >= 4 and len(t[3]) > 1:
            body = dec(t[3])
            sig = [x for x in body.split('\n') if x.strip()][0]
            name = re.search(r'(\w+)\(', sig).group(1)
            helper_sig[t[1]][t[2]] = (sig, name)
    rng = random.Random(chk.seed)
    n = 40 if chk.tier == 'quick' else 400
    stats = {'systems': 0, 'valid': 0, 'invalid': 0, 'with_externals': 0, 'with_nla': 0, 'c_compiled': 0, 'python_loaded': 0, 'helpers_emitted': 0,
             'entries_compared': 0, 'types': {}}
    oracle, corr = [], []
    struct_lines, struct_meta = [], []
    if replay:
        r = json.load(open(replay))
        cases = [(r['cellml'], r.get('externals', []), r.get('typed', True))]
    else:
        cases = []
        for i in range(n):
            typed = rng.random() < 0.6
            sysd = M.gen_system(rng, ncomp=rng.randint(1, 4), nq=rng.randint(2, 10), depth=rng.randint(1, 4), ode=rng.random() < 0.7, typed=typed)
            text = M.to_cellml(sysd, rng, nla=rng.random() < 0.25)
            ext = []
            if rng.random() < 0.3:
                for q in rng.sample(sysd['qs'], min(len(sysd['qs']), rng.randint(1, 2))):
                    if q.kind != 'voi' or rng.random() < 0.1:
                        ext += ['c%d' % q.home, q.members[q.home][0]]
            r = rng.random()
            if r < 0.12:      # underconstrained: drop an equation
                text = re.sub(r'<apply><eq/>.*?</apply></math>', '</math>', text, count=1) if '<apply><eq/>' in text else text
            elif r < 0.2:     # overconstrained: give a computed variable an initial value as well
                text = text.replace('interface="public"/>', 'interface="public" initial_value="1"/>', 1)
            elif r < 0.25:    # unknown element
                text = text.replace('<plus/>', '<foo/>', 1)
            elif r < 0.33 and '</component>' in text:
                # unsuitably constrained: one variable computed twice and one never computed, in a component of their own
                text = text.replace('</component>', '</component>\n  <component name="zuc"><variable name="zx" units="dimensionless"/><variable name="zy" units="dimensionless"/>'
                                    '<math xmlns="http://www.w3.org/1998/Math/MathML"><apply><eq/><ci>zy</ci><cn cellml:units="dimensionless">1</cn></apply>'
                                    '<apply><eq/><ci>zy</ci><cn cellml:units="dimensionless">3</cn></apply></math></component>', 1)
                stats['unsuitably_constrained_made'] = stats.get('unsuitably_constrained_made', 0) + 1
            cases.append((text, ext, typed))
        # NLA blocks: one or two systems of several equations each, their equations interleaved, some unknowns marked external
        import nlasys as N
        for i in range(max(6, n // 4)):
            dd = N.gen(rng)
            if dd is not None:
                cases.append((dd['text'], sum([['c', nm] for nm in dd['ext']], []), True))
        cases.append(('', [], True))      # no model at all
    wd = tempfile.mkdtemp(prefix='c17-')
    try:
        for text, ext, typed in cases:
            fn = os.path.join(wd, 'm.cellml'); open(fn, 'w').write(text)
            stats['systems'] += 1
            for pr in ('C', 'PY'):
                r = subprocess.run([hxg, fn, pr] + ext, capture_output=True, text=True, timeout=120)
                if '=====IMPL' not in r.stdout:
                    oracle.append(('%s: the library crashed (rc=%d)' % (pr, r.returncode), text, ext)); break
                info, iface, impl = sections(r.stdout)
                d = parse_info(info)
                stats['types'][d['type']] = stats['types'].get(d['type'], 0) + 1
                if d['type'] not in VALID:
                    if pr == 'C':
                        stats['invalid'] += 1
                    if iface or impl:
                        oracle.append(('%s: code is generated for a model of type %s' % (pr, d['type']), text, ext))
                    continue
                if pr == 'C':
                    stats['valid'] += 1
                    stats['with_externals'] += d['externals'] == '1'
                    stats['with_nla'] += d['type'] in ('nla', 'dae')
                g = parse_generated(pr, iface, impl)
                ode = d['type'] in ('ode', 'dae')
                # oracle: counts and entries against the analysed model
                if g['variable_count'] != len(d['variable']) or (ode and g['state_count'] != len(d['state'])):
                    oracle.append(('%s: STATE_COUNT/VARIABLE_COUNT %s/%s but the analysed model has %d states and %d variables' % (pr, g['state_count'], g['variable_count'], len(d['state']), len(d['variable'])), text, ext))
                for kind in ('voi', 'state', 'variable'):
                    want = [(a, b, c, t.upper()) for a, b, c, t in d[kind]] if (ode or kind == 'variable') else []
                    got = [tuple(x) for x in g[kind]]
                    stats['entries_compared'] += len(want)
                    if want != got:
                        oracle.append(('%s: %s info table %s differs from the analysed model %s' % (pr, kind, got[:4], want[:4]), text, ext))
                if pr == 'C':
                    allv = (d['voi'] + d['state'] if ode else []) + d['variable']
                    for fld, idx in (('name', 0), ('units', 1), ('component', 2)):
                        need = max([len(v[idx].encode()) + 1 for v in allv] or [0])
                        if g['size_' + fld] is None or g['size_' + fld] < need:
                            oracle.append(('C: char %s[%s] cannot hold an entry of %d bytes' % (fld, g['size_' + fld], need), text, ext))
                        elif g['size_' + fld] != need:
                            oracle.append(('C: char %s[%s] but the longest entry needs %d' % (fld, g['size_' + fld], need), text, ext))
                    # every declared function defined exactly once with the same signature
                    for proto in re.findall(r'^([\w][\w \*]*\([^;{}]*\));$', iface, re.M):
                        if proto.startswith('typedef') or proto.startswith('extern'):
                            continue
                        k = impl.count(proto + '\n{')
                        if k != 1:
                            oracle.append(('C: %s is declared in the interface and defined %d times in the implementation' % (proto, k), text, ext))
                # helpers: emitted iff called
                emitted = []
                unused_ok = set()
                for h, (sig, name) in helper_sig[pr].items():
                    if sig in impl:
                        emitted.append(h)
                        calls = len(re.findall(r'(?<![\w.])%s\(' % re.escape(name), impl)) - impl.count(sig)
                        if calls < 1:
                            kf = [f for f in known_findings()['findings'] if f.get('id') == 'C17-helper-of-external-equation']
                            if d['externals'] == '1' and ext and kf:
                                # the equation that used it belongs to a variable marked external: see known_findings.json
                                chk.known_finding(kf[0]['what']); unused_ok.add((pr, h))
                            else:
                                oracle.append(('%s: helper %s is emitted but never called' % (pr, name), text, ext))
                stats['helpers_emitted'] += len(emitted)
                # compile / load
                if pr == 'C':
                    open(os.path.join(wd, 'model.h'), 'w').write(iface); open(os.path.join(wd, 'model.c'), 'w').write(impl)
                    c = subprocess.run(['gcc', '-std=c99', '-Wall', '-Wextra', '-c', os.path.join(wd, 'model.c'), '-I', wd, '-o', os.path.join(wd, 'model.o')], capture_output=True, text=True)
                    diags = [l for l in c.stderr.split('\n') if (' warning: ' in l or ' error: ' in l) and '-Wunused-parameter' not in l and '-Wunused-variable' not in l]
                    mixing = [l for l in diags if any(w in l for w in MIXING)]
                    if not typed and mixing:
                        # truth values used as numbers (or conversely) in the model: see known_findings.json
                        stats['mixing_diagnostics'] = stats.get('mixing_diagnostics', 0) + 1
                        for kf in [f for f in known_findings()['findings'] if f['property'] == 'C17']:
                            if kf.get('id') == 'C17-truth-value-diagnostics':
                                chk.known_finding(kf['what'])
                                diags = [l for l in diags if l not in mixing]
                    if c.returncode != 0 or diags:
                        oracle.append(('C: the generated code does not compile cleanly: %s' % (diags[:2] or c.stderr[:300]), text, ext))
                    else:
                        stats['c_compiled'] += 1
                else:
                    stub = types.ModuleType('nlasolver'); stub.nla_solve = lambda *a: None
                    sys.modules['nlasolver'] = stub
                    try:
                        exec(compile(impl, '<generated>', 'exec'), {})
                        stats['python_loaded'] += 1
                    except Exception as e:
                        oracle.append(('PY: the generated code does not load: %s: %s' % (type(e).__name__, e), text, ext))
                    finally:
                        sys.modules.pop('nlasolver', None)
                # correspondence line for the Lean model
                def vs(tag, lst):
                    return '(%s%s)' % (tag, ''.join(' (v %s %s %s %d)' % (X.hexs(a), X.hexs(b), X.hexs(c), TYNAT[t]) for a, b, c, t in lst))
                struct_lines.append('(struct %s %d %s %s %s (asts %s))' % (pr, 1 if ode else 0, vs('voi', d['voi']), vs('states', d['state']), vs('vars', d['variable']), ' '.join(d['asts'])))
                struct_meta.append((pr, g, sorted(h for h in emitted if (pr, h) not in unused_ok), sorted(d['need']), text, ext))
    finally:
        shutil.rmtree(wd, ignore_errors=True)
    model = run_lines_parallel(drv, ['struct'], struct_lines)[1] if os.path.exists(drv) and struct_lines else []
    for line, (pr, g, emitted, need, text, ext), m in zip(struct_lines, struct_meta, model):
        mm = re.match(r'sizes (\d+) (\d+) (\d+) counts (\d+) (\d+) helpers (\S+) called (\S+)', m)
        if not mm:
            corr.append(('the structure model rejects the analysed model: ' + m[:100], text, ext)); continue
        ph = [] if mm.group(6) == '-' else sorted(mm.group(6).split(','))
        if pr == 'C' and (int(mm.group(1)), int(mm.group(2)), int(mm.group(3))) != (g['size_component'], g['size_name'], g['size_units']):
            corr.append(('C: buffer sizes predicted %s, generated component/name/units %s/%s/%s' % (mm.group(1, 2, 3), g['size_component'], g['size_name'], g['size_units']), text, ext))
        if int(mm.group(5)) != g['variable_count'] or (g['state_count'] is not None and int(mm.group(4)) != g['state_count']):
            corr.append(('%s: counts predicted %s/%s, generated %s/%s' % (pr, mm.group(4), mm.group(5), g['state_count'], g['variable_count']), text, ext))
        if ph != emitted:
            corr.append(('%s: helpers predicted from the equation ASTs %s, emitted %s (need-flags %s)' % (pr, ph, emitted, need), text, ext))
    chk.cov.update(evaluations=len(struct_lines), distinct_nontrivial=stats['valid'],
                   rule='generated systems (constants, computed constants, algebraic variables, states; 1-4 connected components with scaled units; random expressions over the whole operator set; '
                        'a quarter with an NLA block, a third with external variables, a third made invalid: missing equation, double definition, unknown element, unsuitably constrained (one variable computed twice, one never); no model) x {C, Python}; '
                        'one evaluation = one valid (system, profile): counts, info entries, buffer sizes, prototypes, helper set, compile / load',
                   samples=[struct_lines[0][:300] if struct_lines else '', model[0][:200] if model else ''],
                   traces_validated_against_impl=len(struct_lines) - len(corr), exhaustive=False, outcome_histogram=stats)
    for what, text, ext in oracle[:3]:
        chk.violation('generated code does not match the analysed model: ' + what, {'kind': 'oracle', 'engine': 'struct', 'cellml': text, 'externals': ext, 'typed': False, 'why': what}, True)
    if not oracle:
        for what, text, ext in corr[:3]:
            chk.violation('structure model and generator disagree (correspondence `struct` broken): ' + what,
                          {'kind': 'correspondence', 'engine': 'struct', 'cellml': text, 'externals': ext, 'why': what, 'theorem': 'Cellml.Props.C17.helpers_defined / entries_fit'}, False)
