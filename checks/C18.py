"""C18 — variable-equivalence queries agree with the connection graph."""
import random, itertools
from vlib.common import *

WIT = ['7a62007a0200', '7a62007a7f10', '7a62007a4ad0', '7a62007abc20']   # kernel-checked Cantor collision (Props/C18.lean)


def gen_graph(rng, nmax):
    n = rng.randint(2, nmax)
    kind = rng.choice(['chain', 'star', 'cycle', 'parts', 'random', 'empty', 'dupedges'])
    es = []
    if kind == 'chain':
        es = [(i, i + 1) for i in range(n - 1)]
    elif kind == 'star':
        es = [(0, i) for i in range(1, n)]
    elif kind == 'cycle':
        es = [(i, (i + 1) % n) for i in range(n)] if n > 2 else [(0, 1)]
    elif kind == 'parts':
        k = rng.randint(1, max(1, n - 1))
        es = [(i, i + 1) for i in range(n - 1) if i + 1 != k]
    elif kind == 'random':
        es = [(rng.randrange(n), rng.randrange(n)) for _ in range(rng.randint(0, 2 * n))]
        es = [(a, b) for a, b in es if a != b]
    elif kind == 'dupedges':
        es = [(i, i + 1) for i in range(n - 1)] + [(i + 1, i) for i in range(n - 1)]
    rng.shuffle(es)
    es = [(b, a) if rng.random() < 0.5 else (a, b) for a, b in es]
    allp = [(a, b) for a in range(n) for b in range(n)]
    rng.shuffle(allp)
    qs = allp + [rng.choice(allp) for _ in range(n)]      # every ordered pair once in random order, then repetitions
    rng.shuffle(qs)
    return n, es, qs, kind


def truth(n, es):
    p = list(range(n))
    def f(x):
        while p[x] != x:
            p[x] = p[p[x]]; x = p[x]
        return x
    for a, b in es:
        p[f(a)] = f(b)
    return lambda a, b: f(a) == f(b)


def pairs(ps):
    return ','.join('%d-%d' % p for p in ps)


def run(chk, replay=None):
    lib = build_lib()
    hx = build_hx('hx_equiv', lib)
    leandir, ok, out, changed = standard_lean(chk, 'C18')
    chk.assumptions += [
        'the equivalence lists are symmetric and stay inside the model (maintained by Variable::addEquivalence; invariant owned by C09)',
        'distinct live Variable objects have distinct addresses; which addresses an allocator returns is not modelled — the theorem quantifies over all injective address maps',
        'the model is analysed once and not edited afterwards (the cache is documented as valid for a static model)']
    chk.cov['trusted_base'] += ['harness/hx_equiv.cpp (arena operator new for address placement) + lean/Cellml/Engine/Equiv.lean', 'python union-find oracle (checks/C18.py)']
    if not ok:
        chk.violation('Lean obligations of C18 no longer check: ' + out[-1500:], {'kind': 'proof', 'theorem_or_build_log': out[-3000:]}, False)
    drv = drv_path(leandir)
    if not os.path.exists(drv):
        return
    rng = random.Random(chk.seed)
    if replay:
        r = json.load(open(replay))
        _, a, _ = run_lines(hx, [], r['lines'])
        for l, x in zip(r['lines'], a):
            log('replay', l, '->', x)
        if r.get('expect_c') and a and ('C:' + r['expect_c']) not in a[-1]:
            chk.violation('replayed input still fails: ' + a[-1], r, True)
        return
    # 1. key correspondence ---------------------------------------------------------------------
    words = [int(w, 16) for w in WIT] + [0, 1, 2 ** 63, 2 ** 64 - 1, 2 ** 64 - 16, 2 ** 32, 2 ** 32 + 16]
    klines = []
    for a in words:
        for b in words:
            klines.append('K %x %x' % (a, b))
    for _ in range(2000 if chk.tier == 'quick' else 50000):
        base = rng.choice([0x55aa00000000, 0x7a6200000000, 0x7fff00000000, rng.getrandbits(47)])
        a = (base + rng.randrange(0, 1 << rng.choice([12, 16, 24, 32]))) & ~15
        b = (base + rng.randrange(0, 1 << rng.choice([12, 16, 24, 32]))) & ~15
        if rng.random() < 0.1:
            a, b = rng.getrandbits(64), rng.getrandbits(64)
        klines.append('K %x %x' % (a, b))
    _, ki, _ = run_lines(hx, [], klines)
    _, km, _ = run_lines(drv, ['equiv'], klines)
    kdis = [(l, x, y) for l, x, y in zip(klines, ki, km) if x != y]
    # 2. graphs -----------------------------------------------------------------------------------
    ngraphs = 150 if chk.tier == 'quick' else 1500
    nmax = 10 if chk.tier == 'quick' else 24
    graphs = [gen_graph(rng, nmax) for _ in range(ngraphs)]
    # large networks (the searches are unbounded): a long chain, a broom (hub, spokes, a tip on every spoke), a random tree
    def big(kind):
        if kind == 'long-chain':
            n = rng.randint(90, 130); es = [(i, i + 1) for i in range(n - 1)]
        elif kind == 'broom':
            k = rng.randint(66, 80); n = 1 + 2 * k
            es = [(0, 1 + i) for i in range(k)] + [(1 + i, 1 + k + i) for i in range(k)]
        else:
            n = rng.randint(90, 130); es = [(rng.randrange(i), i) for i in range(1, n)]
            cut = rng.randrange(1, n); es = [e for e in es if e[1] != cut]
        rng.shuffle(es) if kind != 'broom' else None
        es = [(b, a) if rng.random() < 0.5 else (a, b) for a, b in es]
        qs = [(0, n - 1), (n - 1, 0), (n - 1, n - 2), (n // 2, n - 1), (n - 1, n // 2 + 1)] + [(rng.randrange(n), rng.randrange(n)) for _ in range(300)]
        qs += [(b, a) for a, b in qs[:100]]
        return n, es, qs, kind
    graphs += [big(k) for k in (['long-chain', 'broom', 'big-tree'] if chk.tier == 'quick' else ['long-chain', 'broom', 'big-tree'] * 5)]
    # in some graphs a few variables leave the model once the equivalences are made (removed from their component, or moved into
    # another model): a chain of equivalences that passes through them still links its ends
    glines = []
    for n, es, qs, kind in graphs:
        out = [i for i in range(n) if rng.random() < 0.25] if (kind not in ('long-chain', 'broom', 'big-tree') and rng.random() < 0.4) else []
        glines.append('G %d E:%s Q:%s%s' % (n, pairs(es), pairs(qs), (' O:' + ','.join(map(str, out))) if out else ''))
    _, gi, _ = run_lines(hx, [], glines)
    mlines = []
    for l, x in zip(glines, gi):
        m = re.search(r' A:(\S*)', x)
        mlines.append(re.sub(r' O:\S*', '', l).replace(' Q:', ' A:%s Q:' % (m.group(1) if m else '')))
    _, gm, _ = run_lines(drv, ['equiv'], mlines)
    gdis, orafail = [], []
    kinds = {}
    queries = 0
    for (n, es, qs, kind), l, x, y in zip(graphs, glines, gi, gm):
        kinds[kind] = kinds.get(kind, 0) + 1
        queries += len(qs)
        xs = re.sub(r' A:\S*', '', x)
        if xs != y:
            gdis.append((l, x, y))
        t = truth(n, es)
        m = re.match(r'R H:([01]*) C:([01]*) size=(\d+)', x)
        if not m:
            orafail.append((l, 'implementation answered: ' + x, None)); continue
        eh = ''.join('1' if (a != b and t(a, b)) else '0' for a, b in qs)
        ec = ''.join('1' if t(a, b) else '0' for a, b in qs)
        if m.group(1) != eh:
            orafail.append((l, 'hasEquivalentVariable(v, true) answers %s, connectivity says %s' % (m.group(1), eh), None))
        if m.group(2) != ec:
            orafail.append((l, 'AnalyserModel::areEquivalentVariables answers %s, connectivity says %s' % (m.group(2), ec), ec))
    # 3. arena: the stored collision witness of the superseded key, on the real objects ---------------
    wl = 'P %s E:0-1 Q:0-1,2-3,1-0,3-2,2-3' % ','.join(WIT)
    _, wi, _ = run_lines(hx, [], [wl])
    arena = wi[0] if wi else ''
    if arena.startswith('ARENA'):
        chk.cov['arena'] = arena
    else:
        m = re.match(r'R H:([01]*) C:([01]*)', arena)
        if not m or m.group(2) != '10100':
            orafail.append((wl, 'four variables placed at the Cantor-collision addresses: cached answers %s, expected 10100' % (m.group(2) if m else arena), '10100'))
    # 4. if the key correspondence broke: search the implementation's key for a collision and replay it ---
    found_collision = None
    if kdis:
        cand = [int(w, 16) for w in WIT] + [0x7a6200800000 + 16 * i for i in range(24)] + [0x7a6300800000 + 16 * i for i in range(8)] + [0x7a6200800000 + (1 << 32) + 16 * i for i in range(8)]
        prs = [(a, b) for a in cand for b in cand if a < b]
        _, ks, _ = run_lines(hx, [], ['K %x %x' % p for p in prs] + ['K %x %x' % (b, a) for a, b in prs])
        seen = {}
        for p, k in zip(prs + prs, ks):
            if k in seen and seen[k] != p:
                found_collision = (seen[k], p); break
            seen[k] = p
        if found_collision:
            (a, b), (c, d) = found_collision
            addrs = []
            for w in (a, b, c, d):
                if w not in addrs: addrs.append(w)
            ix = lambda w: addrs.index(w)
            # first pair equivalent, second pair not (if they share a member the second pair is still unlinked)
            cl = 'P %s E:%d-%d Q:%d-%d,%d-%d' % (','.join('%x' % w for w in addrs), ix(a), ix(b), ix(a), ix(b), ix(c), ix(d))
            _, cr, _ = run_lines(hx, [], [cl])
            m = re.match(r'R H:([01]*) C:([01]*)', cr[0] if cr else '')
            if m and m.group(2) != '10':
                orafail.append((cl, 'key collision of the implementation replayed on real objects: cached answers %s, expected 10' % m.group(2), '10'))
    chk.cov.update(evaluations=len(klines) + queries + 5, distinct_nontrivial=len({l for l in glines}),
                   rule='key: hook-free call of AnalyserModelImpl::equivalenceCacheKey on %d word pairs (witness, boundary, random aligned); '
                        'graphs: %d generated connection graphs (chains, stars, cycles, parts, random, duplicates; long chains, brooms and trees of 90-160 variables with 400 queried pairs), every ordered pair of variables in shuffled order plus repetitions, '
                        'both query kinds; non-trivial = distinct graph+query-order lines' % (len(klines), ngraphs),
                   samples=[glines[0], gi[0], gm[0], wl, arena], traces_validated_against_impl=len(klines) - len(kdis) + len(glines) - len(gdis),
                   exhaustive=False, graph_kinds=kinds, queries=queries, arena_witness=arena)
    for l, why, exp in orafail[:3]:
        chk.violation('implementation disagrees with the connection graph: ' + why, {'kind': 'oracle', 'engine': 'equiv', 'lines': [l], 'expect_c': exp, 'why': why}, True)
    if not orafail:
        for l, x, y in kdis[:2]:
            chk.violation('cache key of the implementation differs from the model (correspondence `equiv` K broken): %s impl %s model %s%s' % (
                l, x, y, '; collision found %s but no wrong answer reproduced' % (found_collision,) if found_collision else ''),
                {'kind': 'correspondence', 'engine': 'equiv', 'lines': [l], 'impl': x, 'model': y}, False)
        for l, x, y in gdis[:2]:
            chk.violation('graph answers differ between model and implementation (correspondence `equiv` G broken): impl %s model %s' % (x, y),
                          {'kind': 'correspondence', 'engine': 'equiv', 'lines': [l], 'impl': x, 'model': y}, False)
