"""C16 — numeric text is recognised per the CellML grammar and never crashes."""
import random, re
from vlib.common import *

SPEC_REAL = re.compile(r'-?(?:[0-9]+\.?[0-9]*|\.[0-9]+)(?:[eE][+-]?[0-9]+)?\Z')
SPEC_INT = re.compile(r'[+-]?[0-9]+\Z')


def oracle(hexs_, bits, dcls, icls):
    """the property's own oracle, evaluated on the implementation's answer (independent of the Lean model)"""
    s = bytes.fromhex('' if hexs_ == '-' else hexs_).decode('latin-1')
    bad = []
    if (bits[3] == '1') != bool(SPEC_REAL.match(s)):
        bad.append('isCellMLReal(%r)=%s but the grammar says %s' % (s, bits[3], bool(SPEC_REAL.match(s))))
    if (bits[1] == '1') != bool(SPEC_INT.match(s)):
        bad.append('isCellMLInteger(%r)=%s but the grammar says %s' % (s, bits[1], bool(SPEC_INT.match(s))))
    if dcls in 'TX':
        bad.append('convertToDouble(%r) throws' % s)
    if icls in 'TX':
        bad.append('convertToInt(%r) throws' % s)
    if SPEC_REAL.match(s) and dcls == 'R':
        bad.append('convertToDouble(%r) rejects a CellML real' % s)
    return bad


POSITIONS = ['exponent', 'multiplier', 'prefix', 'initial', 'order', 'cnreal', 'cnmant', 'cnexp']
SPEC_BASIC = re.compile(r'-?(?:[0-9]+\.?[0-9]*|\.[0-9]+)\Z')
SI = ['yotta', 'zetta', 'exa', 'peta', 'tera', 'giga', 'mega', 'kilo', 'hecto', 'deca', 'deci', 'centi', 'milli', 'micro', 'nano', 'pico', 'femto', 'atto', 'zepto', 'yocto']


def pos_oracle(pos, s):
    """property-level expectation for text s at a position: True = an issue must be raised, False = must not,
    None = not decided by the statement (range edges of double are left to the model)"""
    from fractions import Fraction
    def int_ok(t):
        return bool(SPEC_INT.match(t)) and -2 ** 31 <= int(t) <= 2 ** 31 - 1
    def real_range(t):
        # safely inside / outside the double range; None near the edges
        m = re.match(r'(-?)([0-9]*)\.?([0-9]*)(?:[eE]([+-]?[0-9]+))?\Z', t)
        digits = (m.group(2) + m.group(3)).lstrip('0')
        if not digits:
            return True
        e = int(m.group(4) or 0) - len(m.group(3)) + len(digits) - 1   # decimal exponent of the leading digit
        if -300 <= e <= 300: return True
        if e > 310 or e < -330: return False
        return None
    t = s.strip(' \t\n\r\x0b\x0c')
    if pos in ('exponent', 'multiplier'):
        if not SPEC_REAL.match(s): return True
        r = real_range(s); return None if r is None else (not r)
    if pos == 'initial':
        return False if (s == '' or SPEC_REAL.match(s)) else True
    if pos == 'order':
        return not int_ok(s)
    if pos == 'prefix':
        return not (s == '' or s in SI or int_ok(s))
    if pos in ('cnreal', 'cnmant'):
        if not SPEC_BASIC.match(t): return True
        r = real_range(t); return None if r is None else (not r)
    if pos == 'cnexp':
        return not int_ok(t)


def position_lines(rng, tier):
    alpha = '0123456789+-.eE a'
    strs = ['']
    n = 1 if tier == 'quick' else 2
    for k in range(1, n + 1):
        import itertools
        strs += [''.join(t) for t in itertools.product(alpha, repeat=k)]
    strs += ['2147483647', '2147483648', '-2147483648', '-2147483649', '+2147483647', '99999999999', '1e308', '1e999', '1E-999', '-1.5e+10',
             '0.' + '0' * 400 + '1', '9' * 400, '1.' + '9' * 30, 'kilo', 'milli', 'kil', ' 7', '7 ', ' 2147483648 ', '00000000000000000000001']
    strs += [x for x in random_strings(rng, 120 if tier == 'quick' else 1500)]
    out = []
    for s in strs:
        if s != '' and s.strip(' ') == '':
            continue            # white-space-only content: whether libxml2 keeps the text node is process-global state (C12)
        for p in POSITIONS:
            out.append((p, s))
    return out


def random_strings(rng, n):
    alpha = '0123456789+-.eE a'
    out = []
    for _ in range(n):
        k = rng.random()
        if k < 0.35:       # grammar-shaped, long
            s = rng.choice(['', '-', '+', ' ']) + ''.join(rng.choice('0123456789') for _ in range(rng.randint(0, 25)))
            if rng.random() < 0.7:
                s += '.' + ''.join(rng.choice('0123456789') for _ in range(rng.randint(0, 25)))
            if rng.random() < 0.6:
                s += rng.choice('eE') + rng.choice(['', '-', '+']) + ''.join(rng.choice('0123456789') for _ in range(rng.randint(0, 4)))
        elif k < 0.55:     # extreme magnitudes away from the range boundaries (rounding at the boundary is not modelled)
            e = rng.choice([rng.randint(-290, 290), rng.randint(330, 5000), -rng.randint(340, 5000), rng.randint(10 ** 9, 10 ** 12)])
            s = rng.choice(['', '-']) + str(rng.randint(1, 9)) + '.' + str(rng.randint(0, 999)) + rng.choice('eE') + str(e)
        elif k < 0.7:      # integers around the int range
            s = rng.choice(['', '-', '+']) + str(rng.choice([2147483647, 2147483648, 2147483649, 0, 7, 10 ** 12, 99999999999999999999, rng.randint(0, 2 ** 33)]))
        else:              # noise over the alphabet
            s = ''.join(rng.choice(alpha) for _ in range(rng.randint(5, 12)))
        out.append(s)
    return out


def run(chk, replay=None):
    lib = build_lib()
    hx = build_hx('hx_num', lib)
    leandir, ok, out, changed = standard_lean(chk, 'C16')
    chk.assumptions += [
        'std::stod / std::stoi: modelled by their documented precondition (strtod/strtol consume at least one digit) and exact range tests; rounding at the very edge of the double range is not modelled and not generated',
        'the correspondence is exhaustive up to the stated length over 17 symbols and sampled beyond',
        'harness hx_num.cpp calls the real functions of /repo/src/utilities.cpp linked from the freshly built library']
    chk.cov['trusted_base'] += ['correspondence harness harness/hx_num.cpp + lean/Cellml/Engine/Num.lean', 'python regex oracle for the grammar (checks/C16.py)']
    if not ok:
        chk.violation('Lean obligations of C16 no longer check: ' + out[-1500:], {'kind': 'proof', 'theorem_or_build_log': out[-3000:]}, False)
    drv = drv_path(leandir)
    if not os.path.exists(drv):
        return
    if replay:
        r = json.load(open(replay))
        lines = r.get('lines', [])
        eng = r.get('engine', 'num')
        _, a, _ = run_lines(hx, [eng], lines); _, b, _ = run_lines(drv, [eng], lines)
        for l, x, y in zip(lines, a, b):
            if eng == 'num':
                bad = oracle(*x.split())
            else:
                p, hx_ = l.split(); txt = bytes.fromhex('' if hx_ == '-' else hx_).decode('latin-1'); e = pos_oracle(p, txt)
                bad = x.endswith('THROWS') or (e is not None and x.split()[-1] != ('1' if e else '0'))
            log('replay', l, 'impl:', x, 'model:', y, 'oracle fails:', bad)
            if x != y or bad:
                chk.violation('replayed input still fails: ' + x, r, True)
        return
    n = 4 if chk.tier == 'quick' else 5
    rc1, impl, e1 = run_lines(hx, ['num-enum', str(n)], [])
    rc2, model, e2 = run_lines(drv, ['num-enum', str(n)], [])
    rng = random.Random(chk.seed)
    rs = random_strings(rng, 20000 if chk.tier == 'quick' else 200000)
    corpus = [l.strip() for l in open(os.path.join(ROOT, 'corpus', 'C16.txt'))] if os.path.exists(os.path.join(ROOT, 'corpus', 'C16.txt')) else []
    lines = corpus + [hexs(s) for s in rs]
    rc3, impl2, e3 = run_lines(hx, ['num'], lines)
    rc4, model2, e4 = run_lines(drv, ['num'], lines)
    if rc1 or rc3:
        chk.violation('implementation harness crashed: ' + (e1 + e3)[-500:], {'kind': 'crash', 'stderr': (e1 + e3)[-2000:]}, False)
    impl += impl2; model += model2
    # the same texts in every position where a number is read (Parser + Validator (+ Printer, Analyser must not throw))
    plines = position_lines(rng, chk.tier)
    pl = ['%s %s' % (p, hexs(x)) for p, x in plines]
    rc5, pimpl, e5 = run_lines_parallel(hx, ['numpos'], pl)
    rc6, pmodel, e6 = run_lines(drv, ['numpos'], pl)
    pos_dis, pos_ora = [], []
    pos_hist = {}
    for (p, x), a, b in zip(plines, pimpl, pmodel):
        key = p + ':' + a.split()[-1]
        pos_hist[key] = pos_hist.get(key, 0) + 1
        if a != b:
            pos_dis.append((p, x, a, b))
        exp = pos_oracle(p, x)
        got = a.split()[-1]
        if got == 'THROWS' or (exp is not None and got != ('1' if exp else '0')):
            pos_ora.append((p, x, a, exp))
    if rc5:
        chk.violation('implementation harness crashed in numpos: ' + e5[-500:], {'kind': 'crash', 'stderr': e5[-2000:]}, False)
    chk.cov['positions'] = dict(evaluations=len(pl), histogram=pos_hist, positions=POSITIONS)
    chk.cov['evaluations'] = len(impl) + len(pl)
    chk.cov['exhaustive'] = True
    chk.cov['rule'] = ('all %d strings of length <= %d over "0123456789+-.eE a" (exhaustive) + %d seeded random long strings '
                       '(grammar-shaped, extreme magnitudes, int-range edges, noise); non-trivial = accepted by at least one recogniser '
                       'or out of range' % (len(impl) - len(lines), n, len(lines)))
    nontriv = set(); disagree = []; orafail = []
    hist = {}
    for i, x in enumerate(impl):
        y = model[i] if i < len(model) else '<missing>'
        t = x.split()
        if len(t) == 4:
            key = t[1] + t[2] + t[3]
            hist[key] = hist.get(key, 0) + 1
            if t[1] != '0000' or t[2] != 'R' or t[3] != 'R':
                nontriv.add(t[0])
            bad = oracle(*t)
            if bad:
                orafail.append((t[0], bad))
        if x != y:
            disagree.append((x, y))
    # 3. numbers written by the printer (convertToString) are CellML reals that read back equal to 15 significant digits
    vals = [0.0, 1.0, -1.0, 0.1, -0.5, 1e22, 1e-7, 123456789012345.0, -1.23456789012345e-100, 1.23456789012345e+100, -9.99999999999999e-300, 2.2250738585072014e-308, -1.7976931348623157e+308, 5e-324]
    for _ in range(1500 if chk.tier == 'quick' else 20000):
        m = rng.choice([1.0, 2.0, 0.5, 1.5, 3.14159265358979, 1.23456789012345, 9.99999999999999, rng.uniform(1, 10), float(rng.randint(1, 999999))])
        vals.append(rng.choice([1, -1]) * m * 10.0 ** rng.choice([0, 1, -1, 5, -5, 15, -15, 20, -20, 99, -99, 100, -100, 150, -150, 300, -300, rng.randint(-307, 307)]))
    _, pimpl, e7 = run_lines(hx, ['tostring'], [v.hex() for v in vals])
    printfail = []
    hist_print = {'printed': len(vals), 'three_digit_exponents': 0, 'negative': 0}
    for v, l in zip(vals, pimpl):
        t = l.split()
        text = bytes.fromhex('' if t[0] == '-' else t[0]).decode('latin-1')
        hist_print['three_digit_exponents'] += bool(re.search(r'e[+-]\d{3}', text)); hist_print['negative'] += v < 0
        back = float.fromhex(t[2])
        try:
            tv = float(text)
        except ValueError:
            tv = 1.0
        if t[1] != '1' and v != 0.0 and (tv in (float('inf'), float('-inf')) or abs(tv) < 2.2250738585072014e-308):
            kfs = [f for f in known_findings()['findings'] if f.get('id') == 'C16-edge-of-range-not-read-back']
            if kfs:
                chk.known_finding(kfs[0]['what']); continue
        if t[1] != '1':
            printfail.append((v, 'convertToString(%r) = %r is not accepted as a CellML real or not converted' % (v, text)))
        elif ('%.15g' % back) != ('%.15g' % v):
            printfail.append((v, 'convertToString(%r) = %r reads back as %r, which differs within 15 significant digits' % (v, text, back)))
    if len(pimpl) != len(vals):
        printfail.append((0.0, 'the harness stopped while printing numbers: ' + e7[-200:]))
    hist['printed_numbers'] = hist_print
    chk.cov['distinct_nontrivial'] = len(nontriv)
    chk.cov['traces_validated_against_impl'] = len(impl) - len(disagree)
    chk.cov['outcome_histogram'] = hist
    chk.cov['samples'] = [impl[i] for i in (0, 17, 300, len(impl) // 2, len(impl) - 3, len(impl) - 1) if i < len(impl)]
    for p, x, a, exp in sorted(pos_ora, key=lambda t: len(t[1]))[:3]:
        chk.violation('text %r at position %s: implementation says %s, the statement requires %s' % (x, p, a.split()[-1], 'an issue' if exp else 'no issue / no throw'),
                      {'kind': 'oracle', 'engine': 'numpos', 'lines': ['%s %s' % (p, hexs(x))], 'impl': a}, True)
    if not pos_ora:
        for p, x, a, b in sorted(pos_dis, key=lambda t: len(t[1]))[:3]:
            chk.violation('position model and implementation disagree (correspondence `numpos` broken): impl %s / model %s' % (a, b),
                          {'kind': 'correspondence', 'engine': 'numpos', 'lines': ['%s %s' % (p, hexs(x))], 'impl': a, 'model': b}, False)
    for v, why in printfail[:3]:
        chk.violation('a printed number does not read back: ' + why, {'kind': 'oracle', 'engine': 'tostring', 'lines': [v.hex()], 'why': why}, True)
    seen = set()
    for h, bad in sorted(orafail, key=lambda t: (len(t[0]), t[0]))[:3]:
        if h in seen: continue
        seen.add(h)
        chk.violation('implementation violates the grammar/no-throw oracle: ' + '; '.join(bad), {'kind': 'oracle', 'engine': 'num', 'lines': [h], 'detail': bad}, True)
    for x, y in sorted(disagree, key=lambda t: len(t[0]))[:3]:
        h = x.split()[0]
        if h in seen: continue
        seen.add(h)
        chk.violation('model and implementation disagree (correspondence `num` broken): impl %s / model %s' % (x, y),
                      {'kind': 'correspondence', 'engine': 'num', 'lines': [h], 'impl': x, 'model': y}, False)
