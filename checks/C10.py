"""C10 — equals() is a true equivalence relation that sees every attribute."""
import random, copy
from vlib.common import *
sys.path.insert(0, os.path.join(ROOT, 'gen'))
import tables
from pygen import entities as E

KINDS = ['units', 'var', 'reset', 'comp', 'model']


def run(chk, replay=None):
    lib = build_lib()
    hx = build_hx('hx_equals', lib, extra_src=[os.path.join(ROOT, 'harness', 'hx_entity.h')])
    leandir, ok, out, changed = standard_lean(chk, 'C10', {'Cellml/Generated/EqualsFields.lean': tables.equals_table(REPO)})
    chk.assumptions += [
        'exponent / multiplier comparison to within 1 ulp (areNearlyEqual) is abstracted to equality of tokens; generated values are identical or far apart',
        'entities are built through the public API from the wire description (harness/hx_entity.h); parents and equivalences are not part of equality and not modelled here',
        'component recursion is modelled with fuel 64 (generated trees have depth <= 4)']
    chk.cov['trusted_base'] += ['harness/hx_equals.cpp + hx_entity.h, lean/Cellml/Engine/Equals.lean + Entity.lean', 'python generators/mutators pygen/entities.py and the pair oracle in checks/C10.py']
    if not ok:
        chk.violation('Lean obligations of C10 no longer check: ' + out[-1500:], {'kind': 'proof', 'theorem_or_build_log': out[-3000:]}, False)
    drv = drv_path(leandir)
    if not os.path.exists(drv):
        return
    rng = random.Random(chk.seed)
    cases = []   # (line, expectation, description)
    if replay:
        r = json.load(open(replay))
        cases = [(l, r.get('expect'), 'replay') for l in r['lines']]
    else:
        nbase = 60 if chk.tier == 'quick' else 500
        for kind in KINDS:
            S = E.SEXP[kind]
            for _ in range(nbase):
                uv = rng.choice([None, None, 0, 1, 2]) if kind in ('comp', 'model') else None
                a = E.GEN[kind](rng, uniform_vars=uv) if kind in ('comp', 'model') else E.GEN[kind](rng)
                cases.append(('(eq %s %s %s)' % (kind, S(a), S(copy.deepcopy(a))), '1111', 'copy'))
                p = E.permute(rng, kind, a)
                cases.append(('(eq %s %s %s)' % (kind, S(a), S(p)), '1111', 'permutation'))
                for _ in range(3):
                    m, site = E.mutate(rng, kind, rng.choice([a, p]))
                    cases.append(('(eq %s %s %s)' % (kind, S(a), S(m)), '0011', 'mutation ' + site))
                # transitivity triple: a, p, second permutation
                p2 = E.permute(rng, kind, a)
                cases.append(('(eq %s %s %s)' % (kind, S(p), S(p2)), '1111', 'permutation-2'))
        # the shapes of the known finding and of the two repaired defects, always included
        c0 = {'id': '', 'name': 'c', 'enc': '', 'math': '', 'imp': {'src': None, 'ref': ''}, 'vars': [], 'resets': [], 'kids': []}
        v = {'id': '', 'name': 'v', 'initial': '', 'iface': '', 'units': None}
        c1 = copy.deepcopy(c0); c1['vars'] = [v]
        rs = {'id': '', 'order': 1, 'rv': '', 'rvid': '', 'tv': '', 'tvid': '', 'var': None, 'tvar': None}
        c2 = copy.deepcopy(c0); c2['resets'] = [rs]
        A = copy.deepcopy(c0); A['name'] = 'A'; B = copy.deepcopy(c0); B['name'] = 'B'
        pAA = copy.deepcopy(c0); pAA['kids'] = [A, copy.deepcopy(A)]; pAB = copy.deepcopy(c0); pAB['kids'] = [A, B]
        m0 = {'id': '', 'name': 'm', 'enc': '', 'units': [], 'comps': []}; m1 = copy.deepcopy(m0); m1['units'] = [{'id': '', 'name': 'u', 'imp': {'src': None, 'ref': ''}, 'children': []}]
        cases.append(('(eq comp %s %s)' % (E.sexp_comp(c0), E.sexp_comp(c1)), '0011', 'mutation comp.addvar (known-finding shape)'))
        cases.append(('(eq comp %s %s)' % (E.sexp_comp(c0), E.sexp_comp(c2)), '0011', 'mutation comp.addreset'))
        cases.append(('(eq comp %s %s)' % (E.sexp_comp(pAA), E.sexp_comp(pAB)), '0011', 'mutation kid rename with identical sibling'))
        cases.append(('(eq model %s %s)' % (E.sexp_model(m0), E.sexp_model(m1)), '0011', 'mutation model.addunits'))
    if not replay:
        # every case also with import sources of equal value shared as one object (must not matter: equality is by value)
        cases = cases + [(l[:-1] + ' share)', e, d + ' [shared import sources]') for l, e, d in cases if '(imp ' in l]
    lines = [c[0] for c in cases]
    _, impl, e1 = run_lines_parallel(hx, [], lines)
    _, model, e2 = run_lines_parallel(drv, ['equals'], lines)
    disagree, orafail, known = [], [], []
    hist = {}
    kf = [f for f in known_findings()['findings'] if f['property'] == 'C10' and f['id'] == 'C10-variable-count']
    for (l, exp, desc), x, y in zip(cases, impl, model):
        me = y.split()[0] if y.startswith('E') else y
        mf = y.split()[1][1:] if ' F' in y else ''
        key = desc.split()[0] + ':' + x
        hist[key] = hist.get(key, 0) + 1
        agree = x == me
        if not agree:
            disagree.append((l, x, y, desc))
        if exp is None or not re.match(r'E[01]{4}$', x):
            continue
        bits = x[1:]
        bad = []
        if bits[2:] != '11': bad.append('not reflexive')
        if bits[0] != bits[1]: bad.append('not symmetric: a.equals(b)=%s b.equals(a)=%s' % (bits[0], bits[1]))
        if bits[:2] != exp[:2]: bad.append('%s: expected %s both ways, got %s' % (desc, exp[0], bits[:2]))
        if bad:
            # attributable to the known finding iff the counterfactual Fixed_sizeTest model satisfies the oracle on this input
            if agree and kf and mf == exp and mf[0] == mf[1]:
                known.append((l, desc, bits))
            else:
                orafail.append((l, desc, '; '.join(bad)))
    chk.cov.update(evaluations=len(cases), distinct_nontrivial=len(set(lines)),
                   rule='per kind (units, variable, reset, component, model): generated entity vs copy, child-order permutation at every level, single-site mutation at any depth (every attribute/child that equality covers), '
                        'second permutation for transitivity; both directions and reflexivity per pair; non-trivial = distinct pair lines',
                   samples=[dict(case=cases[i][2], line=lines[i][:300], impl=impl[i], model=model[i]) for i in (0, 1, 2, len(cases) // 2, len(cases) - 4) if i < len(cases)],
                   traces_validated_against_impl=len(cases) - len(disagree), exhaustive=False, outcome_histogram=hist,
                   known_finding_instances=len(known))
    if not replay:
        # probe of known finding C10-absolute-tolerance-near-zero: multipliers / exponents of very small magnitude
        u = lambda exp_, mult_: {'id': '', 'name': 'u', 'imp': {'src': None, 'ref': ''}, 'children': [{'ref': 'second', 'pfx': '', 'id': '', 'exp': exp_, 'mult': mult_}]}
        pl = ['(eq units %s %s)' % (E.sexp_units(u('1', '1e-20')), E.sexp_units(u('1', '5e-17'))), '(eq units %s %s)' % (E.sexp_units(u('0', '1')), E.sexp_units(u('2e-16', '1')))]
        _, pi, _ = run_lines(hx, [], pl)
        if any(x.startswith('E11') or x.startswith('E10') or x.startswith('E01') for x in pi):
            tf = [f for f in known_findings()['findings'] if f['id'] == 'C10-absolute-tolerance-near-zero']
            if tf:
                chk.known_finding(tf[0]['what'])
            else:
                orafail.append((pl[0], 'tiny multipliers', 'units whose multipliers are 1e-20 and 5e-17 (or exponents 0 and 2e-16) compare equal: ' + ' '.join(pi)))
    if known:
        chk.known_finding(kf[0]['what'] + ' (%d generated pairs hit it, e.g. %s)' % (len(known), known[0][1]))
    for l, desc, why in orafail[:3]:
        chk.violation('equals() breaks the property on a generated pair (%s): %s' % (desc, why), {'kind': 'oracle', 'engine': 'equals', 'lines': [l], 'expect': None, 'why': why, 'case': desc}, True)
    if not orafail:
        for l, x, y, desc in disagree[:3]:
            chk.violation('equality model and implementation disagree (correspondence `equals` broken) on %s: impl %s model %s' % (desc, x, y),
                          {'kind': 'correspondence', 'engine': 'equals', 'lines': [l], 'impl': x, 'model': y, 'case': desc}, False)
