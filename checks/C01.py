"""C01 — no input can crash, hang or corrupt the processing pipeline."""
import random, sys, tempfile, shutil, subprocess, collections
from vlib.common import *
sys.path.insert(0, os.path.join(ROOT, 'pygen'))
import docs as D
import models as M
import hostile as H
import legacy as L

A_CELLML = '<?xml version="1.0"?><model xmlns="http://www.cellml.org/cellml/2.0#" name="a"><units name="u"><unit units="second"/></units><component name="c"><variable name="v" units="u"/></component></model>'


def run_one(hx, wd, base, data, mode, timeout):
    fn = os.path.join(wd, 'in.cellml'); open(fn, 'wb').write(data)
    open(os.path.join(base, 'self.cellml'), 'wb').write(data)
    try:
        r = subprocess.run([hx, fn, mode, base + '/'], capture_output=True, timeout=timeout)
    except subprocess.TimeoutExpired as e:
        return 'hang', (e.stdout or b'').decode('utf-8', 'replace'), ''
    return r.returncode, r.stdout.decode('utf-8', 'replace'), r.stderr.decode('utf-8', 'replace')[-1500:]


def gen_input(rng):
    r = rng.random()
    if r < 0.5:
        t = D.gen_doc(rng, specials=rng.random() < 0.2, imports=rng.random() < 0.3, resets=True)
    else:
        s = M.gen_system(rng, ncomp=rng.randint(1, 3), nq=rng.randint(2, 6), depth=rng.randint(1, 2), ode=rng.random() < 0.7, typed=True)
        t = M.to_cellml(s, rng, nla=rng.random() < 0.2)
    if rng.random() < 0.15:
        try:
            t = L.to1x(t, rng.choice(['1.0', '1.1']), rng)
        except Exception:
            pass
    what = []
    for _ in range(rng.choice([1, 1, 1, 2, 3])):
        t, w = H.mutate(t, rng); what.append(w)
    data = t.encode('utf-8', 'replace')
    if rng.random() < 0.2:
        data, w = H.damage(data, rng); what.append(w)
    return data[:65536], '; '.join(what)


def run(chk, replay=None):
    san = chk.tier == 'thorough'
    lib = build_lib(sanitize=san)
    hx = build_hx('hx_pipeline', lib)
    leandir, ok, out, changed = standard_lean(chk, 'C01')
    chk.assumptions += [
        'memory safety, undefined behaviour and uncaught exceptions are observed on generated hostile inputs (under ASan + UBSan at the thorough tier), not proved; the theorems cover the logic the crashes of this code base came from: '
        'termination of the guarded recursion over unit references, guarded numeric conversions (C16), termination of import resolution (C07), of the analyser loop (C05) and of the fresh-name search (C06)',
        'inputs are at most 64 KiB: generated CellML 2.0 documents and analysable systems (a share rewritten to CellML 1.0 / 1.1) with one to three structured mutations (hostile numbers and names, cyclic and self-referencing units, deep encapsulation and MathML, '
        'swapped namespaces, renamed / duplicated / misplaced elements, damaged MathML, entity expansion, self-imports, entity references / CDATA sections / processing instructions between tags, non-equation children of math) and byte-level damage, plus a fixed list of minimal inputs (operators with missing operands, odd nodes, malformed math strings); each with the strict and the permissive parser; math strings are also handed to the object model through the API (Component::setMath, Reset::setTestValue / setResetValue)',
        'a stage that does not return within the timeout counts as a hang',
        'libxml2 is part of the pipeline as linked; its own limits (nesting depth, entity expansion) are relied on']
    chk.cov['trusted_base'] += ['harness/hx_pipeline.cpp + lean/Cellml/Engine/Crash.lean', 'pygen/hostile.py, docs.py, models.py, legacy.py (inputs)', 'ASan / UBSan (thorough tier), the kernel\'s signals']
    if not ok:
        chk.violation('Lean obligations of C01 no longer check: ' + out[-1500:], {'kind': 'proof', 'theorem_or_build_log': out[-3000:]}, False)
    drv = drv_path(leandir)
    rng = random.Random(chk.seed)
    stats = collections.Counter()
    oracle, corr = [], []
    wd = tempfile.mkdtemp(prefix='c01-')
    base = os.path.join(wd, 'base'); os.makedirs(base)
    open(os.path.join(base, 'a.cellml'), 'w').write(A_CELLML)
    open(os.path.join(base, 'notxml.cellml'), 'w').write('<model')
    # a library whose component has a variable without units next to one whose units clash with the importer's
    open(os.path.join(base, 'b.cellml'), 'w').write('<?xml version="1.0"?><model xmlns="http://www.cellml.org/cellml/2.0#" name="b"><units name="u"><unit units="second"/></units>'
                                                    '<component name="c"><variable name="v" units="u"/><variable name="w"/><component name="k"/></component>'
                                                    '<component name="k"><variable name="z"/></component><encapsulation><component_ref component="c"><component_ref component="k"/></component_ref></encapsulation></model>')
    try:
        # 1. correspondence: the guarded walk vs the real referencedUnits on random unit graphs (cycles, dangling references)
        n = 150 if chk.tier == 'quick' else 1500
        lines, impl = [], []
        for _ in range(n):
            k = rng.randint(1, 6)
            names = ['u%d' % i for i in range(k)]
            us = [(nm, [rng.choice(names + ['nosuch']) for _ in range(rng.randint(0, 3))]) for nm in names]
            text = '<?xml version="1.0"?><model xmlns="http://www.cellml.org/cellml/2.0#" name="m">' + ''.join(
                '<units name="%s">%s</units>' % (nm, ''.join('<unit units="%s"/>' % r for r in refs)) for nm, refs in us) + '</model>'
            rc, o, e = run_one(hx, wd, base, text.encode(), 'walk', 60)
            lines.append('(walk %s)' % ' '.join('(u %s %s)' % (nm, ' '.join(refs)) for nm, refs in us))
            impl.append(o.split('\n')[0].strip() if rc == 0 and 'queries ' in o else 'crash rc=%s' % rc)
        model = run_lines(drv, ['walk'], lines)[1] if os.path.exists(drv) else [''] * len(lines)
        for l, i, m in zip(lines, impl, model):
            if i != m:
                (oracle if i.startswith('crash') else corr).append(('the recursions over unit references (referencedUnits; isDefined, isResolved, requiresImports, hasImports, validator, printer from every units) on %s: implementation %r, model %r' % (l, i, m), {'wire': l}))
        stats['walk_graphs'] = len(lines)
        # 2. the pipeline on hostile inputs
        inputs = []
        if replay:
            r = json.load(open(replay))
            if r.get('input_hex') is not None:
                inputs = [(bytes.fromhex(r['input_hex']), r.get('what', 'replay'))]
        else:
            inputs = list(H.FIXED) + [(('<?xml version="1.0"?><model xmlns="http://www.cellml.org/cellml/2.0#" name="m"><import xmlns:xlink="http://www.w3.org/1999/xlink" xlink:href="b.cellml">'
                                        '<component component_ref="c" name="ic"/></import><units name="u"><unit units="%s"/></units><component name="own"><variable name="q" units="u"/></component></model>' % un).encode(),
                                       'import of a component with a variable without units, units name clash (%s)' % un) for un in ('metre', 'second')] + [(t.encode(), 'math string: ' + t[:30]) for t in (
                '', 'not xml', '<math', '<math xmlns="http://www.w3.org/1998/Math/MathML">&foo;</math>', '<a/><b', '<math xmlns="http://www.w3.org/1998/Math/MathML"><apply><eq/><ci>x</ci></math>',
                '<math xmlns="http://www.w3.org/1998/Math/MathML"><ci>x</ci></math>', '<math xmlns="http://www.w3.org/1998/Math/MathML"/><math xmlns="http://www.w3.org/1998/Math/MathML"><apply/></math>',
                '<?xml version="1.0"?><math xmlns="http://www.w3.org/1998/Math/MathML"><apply><eq/><ci>x</ci><cn>1</cn></apply></math>', '<root><math xmlns="http://www.w3.org/1998/Math/MathML"/></root>', '<![CDATA[x]]>', '&amp;')]
            nin = 150 if chk.tier == 'quick' else 1500
            while len(inputs) < nin:
                inputs.append(gen_input(rng))
        kinds = collections.Counter()
        for data, what in inputs:
            for w in what.split('; '):
                kinds[w.split(' ')[0] + ' ' + (w.split(' ')[1] if ' ' in w else '')] += 1
            modes = ('strict', 'permissive')
            if what.startswith('math string') or (not replay and b'<math' in data and rng.random() < 0.15):
                # the math of the document (or the fixed string) handed over through the API instead of the parser
                mm = re.search(rb'<math.*?</math>|<math.*', data, re.S)
                modes = ('mathapi',)
                data = data if what.startswith('math string') else (mm.group(0) if mm else data)
            for mode in modes:
                rc, o, e = run_one(hx, wd, base, data, mode, 120 if san else 60)
                stats['runs'] += 1
                st = [l for l in o.split('\n') if l.startswith('stage ')]
                last = st[-1][6:] if st else '?'
                for l in st:
                    stats['stage ' + l[6:]] += 1
                if rc != 0:
                    why = 'does not return (timeout)' if rc == 'hang' else ('dies from signal %d' % -rc if isinstance(rc, int) and rc < 0 else 'exits with status %s%s' % (rc, ' (sanitizer report)' if 'Sanitizer' in e or 'runtime error' in e else ' (uncaught exception)'))
                    oracle.append(('the %s pipeline %s at stage %s on an input with: %s' % (mode, why, last, what),
                                   {'input_hex': data.hex(), 'what': what, 'mode': mode, 'stage': last, 'stderr': e[-800:], 'input_text': data.decode('utf-8', 'replace')[:4000]}))
        stats['inputs'] = len(inputs)
    finally:
        shutil.rmtree(wd, ignore_errors=True)
    hist = dict(stats); hist['mutations'] = dict(kinds.most_common(40)) if not replay else {}
    chk.cov.update(evaluations=stats['runs'] + stats['walk_graphs'], distinct_nontrivial=stats['inputs'],
                   rule='random units graphs of 1-6 units with self-references, cycles (also entered from outside) and dangling references through the real referencedUnits, and from every units of the graph through isDefined / isResolved / requiresImports / isBaseUnit / compatible / scalingFactor, hasImports, hasUnresolvedImports, validateModel, printModel; hostile inputs (see assumptions) through every public stage: parse, validate, print, isDefined / isResolved / requiresImports / '
                        'hasImports / compatible / scalingFactor queries, clone + equals, linkUnits / fixVariableInterfaces / clean, annotate, resolveImports, flattenModel (+ validate and print of the flat model), analyse, generate C and Python - strict and permissive'
                        + ('; library and harness built with -fsanitize=address,undefined' if san else ''),
                   samples=[lines[0] if lines else '', impl[0] if impl else ''], traces_validated_against_impl=stats['walk_graphs'] - len(corr), exhaustive=False, outcome_histogram=hist)
    seen = set()
    for what, rec in oracle:
        key = (rec.get('stage'), what.split(' on an input')[0])
        if key in seen:
            continue
        seen.add(key)
        if len(seen) > 3:
            break
        chk.violation('the pipeline does not return normally: ' + what, dict(rec, kind='oracle', engine='pipeline', why=what), True)
    if not oracle:
        for what, rec in corr[:3]:
            chk.violation('guarded-walk model and referencedUnits disagree (correspondence `walk` broken): ' + what,
                          dict(rec, kind='correspondence', engine='walk', why=what, theorem='Cellml.Props.C01.walk_terminates'), False)
