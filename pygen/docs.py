"""Generator of CellML 2.0 documents over the whole feature space of the printer / parser (C02, C12, C01):
units with children (prefixes, exponents, multipliers, ids), imported units / components, nested encapsulation, variables
with every attribute, connections with several mapped pairs and ids, resets, MathML with insignificant whitespace;
optionally attribute text with XML-special and non-ASCII characters (written escaped, so that the parsed model holds the
raw characters)."""
from xml.sax.saxutils import escape as _esc

STD = ['second', 'metre', 'volt', 'dimensionless', 'kilogram', 'ampere', 'mole', 'litre', 'newton']
PREFIX = ['', '', 'milli', 'kilo', 'micro', 'mega', '3', '-6', 'centi', '1']
EXPS = ['1', '2', '-1', '0.5', '-2', '3', '1.5', '0.30000000000000004', '-0.1']
MULTS = ['1', '1000', '0.001', '2.5', '1e-3', '60', '0.1', '6.02214076e23', '0.30000000000000004', '1e-15']
SPECIAL = ['a&b', 'x<y', 'p>q', 'say "hi"', "it's", 'café', 'a&amp;b', 'μm', 'tab\there', 'a=1&b=2']
MML = 'http://www.w3.org/1998/Math/MathML'


def att(name, value):
    return ' %s="%s"' % (name, _esc(value, {'"': '&quot;'}))


def gen_doc(rng, specials=False, imports=True, resets=True):
    uid = [0]
    def ident(p=0.35):
        if rng.random() < p:
            uid[0] += 1
            if specials and rng.random() < 0.3:
                return 'id%d_%s' % (uid[0], rng.choice(SPECIAL))
            return 'id_%d' % uid[0]
        return None
    def idatt(p=0.35):
        i = ident(p)
        return att('id', i) if i else ''
    out = ['<?xml version="1.0" encoding="UTF-8"?>']
    out.append('<model xmlns="http://www.cellml.org/cellml/2.0#" xmlns:cellml="http://www.cellml.org/cellml/2.0#"%s%s>' % (att('name', 'model_%d' % rng.randrange(100)), idatt()))
    units = []
    imp_units, imp_comps = [], []
    nimp = rng.randint(0, 2) if imports else 0
    for k in range(nimp):
        href = rng.choice(['lib%d.cellml' % k, 'sub/dir/lib%d.xml' % k, 'lib.cellml?version=%d' % k])
        if specials or rng.random() < 0.25:
            href = rng.choice(['lib.cellml?a=1&b=%d' % k, 'lib%d.cellml?x=q&y=2' % k]) if not specials else rng.choice(['lib.cellml?a=1&b=%d' % k, 'my lib %d.cellml' % k, 'café_%d.cellml' % k, 'a<b>%d.cellml' % k])
        inner = []
        for j in range(rng.randint(1, 2)):
            if rng.random() < 0.5:
                n = 'iu%d_%d' % (k, j); imp_units.append(n)
                inner.append('    <units%s%s%s/>' % (att('units_ref', 'ref_%s' % n), att('name', n), idatt()))
            else:
                n = 'ic%d_%d' % (k, j); imp_comps.append(n)
                inner.append('    <component%s%s%s/>' % (att('component_ref', 'ref_%s' % n), att('name', n), idatt()))
        mixed = len(inner) > 1      # an import source shared by several entities: its id is counted once per entity by the validator (known finding C04-shared-import-id)
        out.append('  <import xmlns:xlink="http://www.w3.org/1999/xlink"%s%s>' % (att('xlink:href', href), '' if (mixed and not specials) else idatt()))
        out += inner
        out.append('  </import>')
    for k in range(rng.randint(0, 4)):
        n = 'u%d' % k
        kids = []
        for j in range(rng.randint(0, 3)):
            ref = rng.choice(STD + units + imp_units)
            a = att('units', ref)
            if rng.random() < 0.5: a += att('prefix', rng.choice(PREFIX)) if rng.choice(PREFIX) else ''
            if rng.random() < 0.5: a += att('exponent', rng.choice(EXPS))
            if rng.random() < 0.5: a += att('multiplier', rng.choice(MULTS))
            kids.append('    <unit%s%s/>' % (a, idatt(0.2)))
        if kids:
            out.append('  <units%s%s>' % (att('name', n), idatt()))
            out += kids
            out.append('  </units>')
        else:
            out.append('  <units%s%s/>' % (att('name', n), idatt()))
        units.append(n)
    allunits = STD + units + imp_units
    # component tree
    ncomp = rng.randint(1, 6)
    parent = {}
    comps = ['c%d' % i for i in range(ncomp)]
    for i in range(1, ncomp):
        if rng.random() < 0.6:
            parent[comps[i]] = comps[rng.randrange(i)]
    cvars = {}
    order = [0]
    for c in comps:
        vs = []
        for j in range(rng.randint(0, 4)):
            vs.append({'name': 'v%d' % j, 'units': rng.choice(allunits), 'init': None, 'iface': None, 'id': ident(0.3)})
        for v in vs:
            r = rng.random()
            if r < 0.3:
                v['init'] = rng.choice(['1', '-2.5', '1e3', '0', '3.14159', '1E-5'])
                if specials and rng.random() < 0.2:
                    v['init'] = rng.choice(SPECIAL)
            elif r < 0.4 and len(vs) > 1:
                v['init'] = rng.choice([w['name'] for w in vs if w is not v])
        cvars[c] = vs
    # equivalences between parent/child and sibling components
    def related(a, b):
        return parent.get(a) == b or parent.get(b) == a or parent.get(a) == parent.get(b)
    conns = {}
    extra_conns = []
    for i, a in enumerate(comps):
        for b in comps[i + 1:]:
            if related(a, b) and cvars[a] and cvars[b] and rng.random() < 0.5:
                pairs = []
                for _ in range(rng.randint(1, 3)):
                    va, vb = rng.choice(cvars[a]), rng.choice(cvars[b])
                    if (va['name'], vb['name']) not in [(p[0], p[1]) for p in pairs]:
                        if va['iface'] and vb['iface'] and va['units'] != vb['units']:
                            continue
                        if vb['iface']:
                            va['units'] = vb['units']
                        else:
                            vb['units'] = va['units']
                        va['iface'] = vb['iface'] = 'public_and_private'
                        pairs.append((va['name'], vb['name'], ident(0.4)))
                conns[(a, b)] = (pairs, ident(0.4))
    # connections to imported components: their variables exist only as placeholders created by the parser; one placeholder
    # may be mapped several times (from two components, or twice in one connection)
    tops = [c for c in comps if c not in parent]
    for ic in imp_comps:
        if rng.random() < 0.6:
            cands = [(c, v) for c in tops for v in cvars[c] if not v['iface'] or v['iface'] in ('public', 'public_and_private')]
            rng.shuffle(cands)
            used_c = {}
            for c, v in cands[:rng.randint(1, 3)]:
                v['iface'] = v['iface'] or 'public'
                used_c.setdefault(c, []).append(v['name'])
            ph = rng.choice(['pv', 'pv', 'pw'])
            for c, names in used_c.items():
                extra_conns.append((c, ic, [(nm, ph if rng.random() < 0.8 else 'pw') for nm in names]))
    for c in comps:
        body = []
        for v in cvars[c]:
            a = att('name', v['name']) + att('units', v['units'])
            if v['init'] is not None: a += att('initial_value', v['init'])
            iface = v['iface'] or rng.choice([None, None, 'none', 'public', 'private'])
            if iface: a += att('interface', iface)
            if v['id']: a += att('id', v['id'])
            body.append('    <variable%s/>' % a)
        if resets and len(cvars[c]) >= 2 and rng.random() < 0.3:
            v, w = cvars[c][0]['name'], cvars[c][1]['name']
            order[0] += 1
            oa = att('order', str([0, -1, 1, 2, -7, 3, 100, 4, 5, 6, 7, 8, 9][(order[0] - 1) % 13])) if (rng.random() < 0.97 or not specials) else ''
            body.append('    <reset%s%s%s%s>' % (att('variable', v), att('test_variable', w), oa, idatt()))
            body.append('      <test_value%s><math xmlns="%s"><cn cellml:units="%s">%d</cn></math></test_value>' % (idatt(), MML, cvars[c][1]['units'], rng.randrange(9)))
            body.append('      <reset_value%s>\n        <math xmlns="%s">\n          <cn cellml:units="%s">%d</cn>\n        </math>\n      </reset_value>' % (idatt(), MML, cvars[c][0]['units'], rng.randrange(9)))
            body.append('    </reset>')
        if cvars[c] and rng.random() < 0.5:
            v = cvars[c][0]
            sp = rng.choice(['', '\n      ', '   '])
            body.append('    <math xmlns="%s"%s>%s<apply>%s<eq/><ci>%s</ci><cn cellml:units="%s">%s</cn></apply>%s</math>' % (MML, idatt(0.2), sp, sp, v['name'], v['units'], rng.choice(['1', '2.5', '1000']), sp))
        if body:
            out.append('  <component%s%s>' % (att('name', c), idatt()))
            out += body
            out.append('  </component>')
        else:
            out.append('  <component%s%s/>' % (att('name', c), idatt()))
    for (a, b), (pairs, cid) in conns.items():
        out.append('  <connection%s%s%s>' % (att('component_1', a), att('component_2', b), att('id', cid) if cid else ''))
        for x, y, mid in pairs:
            out.append('    <map_variables%s%s%s/>' % (att('variable_1', x), att('variable_2', y), att('id', mid) if mid else ''))
        out.append('  </connection>')
    for a, b, pairs in extra_conns:
        out.append('  <connection%s%s>' % (att('component_1', a), att('component_2', b)))
        for x, y in pairs:
            out.append('    <map_variables%s%s/>' % (att('variable_1', x), att('variable_2', y)))
        out.append('  </connection>')
    kids = {}
    for c, p in parent.items():
        kids.setdefault(p, []).append(c)
    def ref(c, ind):
        a = att('component', c) + idatt(0.3)
        if c in kids:
            return [ind + '<component_ref%s>' % a] + sum([ref(k, ind + '  ') for k in kids[c]], []) + [ind + '</component_ref>']
        return [ind + '<component_ref%s/>' % a]
    # an imported component may encapsulate components of the importing model: adopt local components that take part in
    # no connection (their interfaces would have to change) and have no children
    connected = {x for (a, b) in conns for x in (a, b)} | {a for a, b, _ in extra_conns}
    free = [c for c in comps if c not in parent and c not in kids and c not in connected]
    imp_kids = {}
    for ic in imp_comps:
        if free and rng.random() < 0.3:
            for _ in range(rng.randint(1, 2)):
                if free:
                    imp_kids.setdefault(ic, []).append(free.pop(rng.randrange(len(free))))
    roots = [c for c in comps if c not in parent and c in kids]
    if roots or imp_kids:
        out.append('  <encapsulation%s>' % idatt(0.4))
        for r in roots:
            out += ref(r, '    ')
        for ic, ks in imp_kids.items():
            out.append('    <component_ref%s%s>' % (att('component', ic), idatt(0.3)))
            for k in ks:
                out += ref(k, '      ')
            out.append('    </component_ref>')
        out.append('  </encapsulation>')
    out.append('</model>')
    return '\n'.join(out) + '\n'
