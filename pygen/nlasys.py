"""Generator of models with an NLA block whose ground truth is exact: k equations that are linear in k + m variables which
all have an initial value (so the analyser sees k + m NLA unknowns), m of which are meant to be marked as external.  The
right-hand sides are numbers, constants or algebraic helpers that depend on a state and on the variable of integration (so
that every equation of the block has its own dependencies); consumers read the unknowns.  `NEWTON_C` is an nlaSolve() for
the generated C (Newton with a finite-difference Jacobian), exact on such blocks up to rounding."""
from fractions import Fraction as Fr

NEWTON_C = r'''
#include <math.h>
#include <stddef.h>
#include <stdio.h>
int nla_calls = 0, nla_failed = 0;
void nlaSolve(void (*objectiveFunction)(double *, double *, void *), double *u, size_t n, void *data)
{
    double f[8], f1[8], J[8][9], d[8];
    ++nla_calls;
    if (n > 8) { nla_failed = 1; return; }
    for (int it = 0; it < 60; ++it) {
        objectiveFunction(u, f, data);
        double nrm = 0.0;
        for (size_t i = 0; i < n; ++i) nrm += fabs(f[i]);
        if (!(nrm == nrm)) { nla_failed = 1; return; }
        if (nrm < 1e-13) return;
        for (size_t j = 0; j < n; ++j) {
            double h = 1e-6 * (fabs(u[j]) > 1.0 ? fabs(u[j]) : 1.0), keep = u[j];
            u[j] = keep + h;
            objectiveFunction(u, f1, data);
            u[j] = keep;
            for (size_t i = 0; i < n; ++i) J[i][j] = (f1[i] - f[i]) / h;
        }
        for (size_t i = 0; i < n; ++i) J[i][n] = -f[i];
        for (size_t c = 0; c < n; ++c) {
            size_t p = c;
            for (size_t r = c + 1; r < n; ++r) if (fabs(J[r][c]) > fabs(J[p][c])) p = r;
            if (fabs(J[p][c]) < 1e-14) { nla_failed = 1; return; }
            for (size_t k = 0; k <= n; ++k) { double t = J[c][k]; J[c][k] = J[p][k]; J[p][k] = t; }
            for (size_t r = 0; r < n; ++r) if (r != c) {
                double m = J[r][c] / J[c][c];
                for (size_t k = c; k <= n; ++k) J[r][k] -= m * J[c][k];
            }
        }
        for (size_t i = 0; i < n; ++i) { d[i] = J[i][n] / J[i][i]; u[i] += d[i]; }
    }
    objectiveFunction(u, f, data);
    { double nrm = 0.0; for (size_t i = 0; i < n; ++i) nrm += fabs(f[i]); if (!(nrm < 1e-9)) nla_failed = 1; }
}
'''


def det(m):
    n = len(m)
    if n == 0:
        return Fr(1)
    if n == 1:
        return m[0][0]
    return sum(((-1) ** j) * m[0][j] * det([r[:j] + r[j + 1:] for r in m[1:]]) for j in range(n))


def solve(a, b):
    """exact solution of a square system (Fractions); None when singular"""
    n = len(a)
    m = [list(map(Fr, r)) + [Fr(x)] for r, x in zip(a, b)]
    for c in range(n):
        p = next((r for r in range(c, n) if m[r][c] != 0), None)
        if p is None:
            return None
        m[c], m[p] = m[p], m[c]
        for r in range(n):
            if r != c and m[r][c] != 0:
                f = m[r][c] / m[c][c]
                m[r] = [x - f * y for x, y in zip(m[r], m[c])]
    return [m[i][n] / m[i][i] for i in range(n)]


def cn(x):
    return '<cn cellml:units="dimensionless">%s</cn>' % x


def lin(coefs, names):
    """MathML of sum coef*name (coefficients are small non-zero integers; 1 is written bare)"""
    terms = []
    for c, n in zip(coefs, names):
        if c == 0:
            continue
        terms.append('<ci>%s</ci>' % n if c == 1 else '<apply><times/>%s<ci>%s</ci></apply>' % (cn(c), n))
    if len(terms) == 1:
        return terms[0]
    return '<apply><plus/>%s</apply>' % ''.join(terms)


def gen(rng, ode=None, k=None, m=None):
    """a model description: text, the marked variables, and everything needed to compute the expected values"""
    ode = rng.random() < 0.6 if ode is None else ode
    k = rng.randint(1, 3) if k is None else k
    m = rng.randint(0, 3) if m is None else m
    n = k + m
    for _ in range(200):
        A = [[rng.choice([0, 1, 1, 2, 3, -1, -2]) for _ in range(n)] for _ in range(k)]
        ext = sorted(rng.sample(range(n), m))
        unk = [i for i in range(n) if i not in ext]
        sub = [[Fr(A[j][i]) for i in unk] for j in range(k)]
        if det(sub) == 0 or any(A[j][i] == 0 for i in unk for j in range(k)):
            continue        # every equation involves every unknown that is left: see known finding C05-nla-unequal-unknowns
        if any(all(A[j][i] == 0 for j in range(k)) for i in range(n)):
            continue        # a variable that occurs nowhere
        # the block must be one system: every equation shares an unknown with the others (connected), else the analyser
        # may legitimately split it; a split system has the same solution, so this only matters for readability
        break
    else:
        return None
    names = ['n%d' % i for i in range(n)]
    guess = [rng.choice(['1', '2', '0.5', '-1', '3']) for _ in range(n)]
    rhs = []        # per equation: ('num', v) | ('const', name, v) | ('helper', name, a, b) meaning a*s + b*t
    consts, helpers = [], []
    for j in range(k):
        r = rng.random()
        if r < 0.35:
            rhs.append(('num', rng.choice([1, 2, 6, 9, -3, 4])))
        elif r < 0.6:
            nm = 'p%d' % j; v = rng.choice([1, 2, 5, 7, -2]); consts.append((nm, v)); rhs.append(('const', nm, v))
        elif ode:
            nm = 'h%d' % j; a, b = rng.choice([1, 2, -1]), rng.choice([1, 3, -2]); helpers.append((nm, a, b)); rhs.append(('helper', nm, a, b))
        else:
            nm = 'h%d' % j; v = rng.choice([1, 2, 5]); helpers.append((nm, v, 0)); rhs.append(('helper', nm, v, 0))
    ncons = rng.randint(0, 2)
    cons = []
    for j in range(ncons):
        co = [rng.choice([0, 1, 2, -1]) for _ in range(n)]
        if all(c == 0 for c in co):
            co[rng.randrange(n)] = 1
        cons.append(('w%d' % j, co, rng.choice([0, 1, -2])))
    rate = [rng.choice([0, 1, -1, 2]) for _ in range(n)]
    if all(c == 0 for c in rate):
        rate[unk[0]] = 1
    vs, eqs = [], []
    if ode:
        vs += ['<variable name="t" units="dimensionless"/>', '<variable name="s" units="dimensionless" initial_value="1"/>']
        eqs.append('<apply><eq/><apply><diff/><bvar><ci>t</ci></bvar><ci>s</ci></apply>%s</apply>' % lin(rate, names))
    for nm, g in zip(names, guess):
        vs.append('<variable name="%s" units="dimensionless" initial_value="%s"/>' % (nm, g))
    for nm, v in consts:
        # a computed constant (p = 5), not an initialised one: an initialised variable that occurs in an NLA equation is
        # taken for one of its unknowns by the analyser
        vs.append('<variable name="%s" units="dimensionless"/>' % nm)
        eqs.append('<apply><eq/><ci>%s</ci>%s</apply>' % (nm, cn(v)))
    for nm, a, b in helpers:
        vs.append('<variable name="%s" units="dimensionless"/>' % nm)
        if ode:
            eqs.append('<apply><eq/><ci>%s</ci><apply><plus/><apply><times/>%s<ci>s</ci></apply><apply><times/>%s<ci>t</ci></apply></apply></apply>' % (nm, cn(a), cn(b)))
        else:
            eqs.append('<apply><eq/><ci>%s</ci><apply><plus/>%s%s</apply></apply>' % (nm, cn(a), cn(0)))
    for j in range(k):
        r = rhs[j]
        # a bare variable on one side would be claimed by the equation as what it computes (initialised variables count as known
        # in the first passes): h + 0 keeps the equation an NLA one
        right = cn(r[1]) if r[0] == 'num' else '<apply><plus/><ci>%s</ci>%s</apply>' % (r[1], cn(0))
        l = lin(A[j], names)
        if l.startswith('<ci>'):
            # a bare variable on one side would make an ordinary assignment: keep it an NLA equation
            l = '<apply><plus/>%s%s</apply>' % (l, cn(0))
        eqs.append('<apply><eq/>%s%s</apply>' % ((l, right) if rng.random() < 0.7 else (right, l)))
    for nm, co, c0 in cons:
        vs.append('<variable name="%s" units="dimensionless"/>' % nm)
        eqs.append('<apply><eq/><ci>%s</ci><apply><plus/>%s%s</apply></apply>' % (nm, lin(co, names), cn(c0)))
    block2 = None
    if rng.random() < 0.4:
        # a second, independent NLA system (its equations end up interleaved with those of the first one)
        k2 = rng.randint(2, 3)
        for _ in range(100):
            A2 = [[rng.choice([1, 1, 2, 3, -1, -2]) for _ in range(k2)] for _ in range(k2)]
            if det([[Fr(x) for x in r] for r in A2]) != 0:
                break
        else:
            A2 = None
        if A2:
            names2 = ['r%d' % i for i in range(k2)]
            rhs2 = [rng.choice([1, 2, 6, 9, -3, 4]) for _ in range(k2)]
            for nm in names2:
                vs.append('<variable name="%s" units="dimensionless" initial_value="%s"/>' % (nm, rng.choice(['1', '2', '0.5'])))
            for j in range(k2):
                eqs.append('<apply><eq/>%s%s</apply>' % (lin(A2[j], names2), cn(rhs2[j])))
            block2 = (A2, names2, rhs2)
    rng.shuffle(eqs)
    rng.shuffle(vs)
    text = ('<?xml version="1.0" encoding="UTF-8"?>\n<model xmlns="http://www.cellml.org/cellml/2.0#" xmlns:cellml="http://www.cellml.org/cellml/2.0#" name="m">\n'
            '  <component name="c">\n    %s\n    <math xmlns="http://www.w3.org/1998/Math/MathML">\n      %s\n    </math>\n  </component>\n</model>\n') % ('\n    '.join(vs), '\n      '.join(eqs))
    # what the callback returns: ea + eb*voi
    extf = {names[i]: (rng.choice([1, 2, -1, 0.5, 3]), rng.choice([1, -1, 2, 0.25]) if ode else 0) for i in ext}
    return dict(text=text, ode=ode, k=k, m=m, A=A, names=names, ext=[names[i] for i in ext], unk=[names[i] for i in unk], rhs=rhs, consts=consts,
                helpers=helpers, cons=cons, rate=rate, extf=extf, block2=block2)


def expected(d, s, t):
    """values of every variable when the state is s and the variable of integration t"""
    val = {}
    for nm, v in d['consts']:
        val[nm] = Fr(v)
    for nm, a, b in d['helpers']:
        val[nm] = Fr(a) * Fr(s) + Fr(b) * Fr(t) if d['ode'] else Fr(a)
    for nm, (ea, eb) in d['extf'].items():
        val[nm] = Fr(ea) + Fr(eb) * Fr(t)
    names = d['names']
    ui = [i for i, nm in enumerate(names) if nm in d['unk']]
    b = []
    for j in range(d['k']):
        r = d['rhs'][j]
        right = Fr(r[1]) if r[0] == 'num' else val[r[1]]
        b.append(right - sum(Fr(d['A'][j][i]) * val[names[i]] for i in range(len(names)) if names[i] in d['ext']))
    sol = solve([[d['A'][j][i] for i in ui] for j in range(d['k'])], b)
    for i, x in zip(ui, sol):
        val[names[i]] = x
    for nm, co, c0 in d['cons']:
        val[nm] = sum(Fr(c) * val[n_] for c, n_ in zip(co, names)) + Fr(c0)
    if d.get('block2'):
        A2, names2, rhs2 = d['block2']
        for nm, x in zip(names2, solve(A2, rhs2)):
            val[nm] = x
    out = {k_: float(v) for k_, v in val.items()}
    if d['ode']:
        out['s'] = float(s)
        out["s'"] = float(sum(Fr(c) * val[n_] for c, n_ in zip(d['rate'], names)))
    return out
