"""C06: split a monolithic generated model (pygen/models.py) into an importing model and library files without changing
its meaning, so that flattening the result must give back a model that computes the values of the monolith.

`modularise(text, rng)` -> dict(files={name: text}, origin=name, moved=[...], policy={file: policy})

Units policies of a library file:
  same      the units its components use are defined again under the same names (clash with an identical definition)
  renamed   ... under other names (L_ms for ms): the flat model may keep either, consistently
  clash     ... one of them under the name that ANOTHER units has in the importing model (ms defined as a millimetre)
  imported  the library imports its units from a third file (under the same or other names)
  imported-alias  the library imports plain aliases (A_ms = 1 ms) of units that it also defines itself under their own names
and, independently, one cn element of a moved component may get units that nothing else uses (defined in the library)."""
import re

HEAD = '<?xml version="1.0" encoding="UTF-8"?>\n<model xmlns="http://www.cellml.org/cellml/2.0#" xmlns:cellml="http://www.cellml.org/cellml/2.0#" name="%s">\n'
IMPORT = '  <import xmlns:xlink="http://www.w3.org/1999/xlink" xlink:href="%s">%s</import>\n'
POLICIES = ['same', 'same', 'renamed', 'clash', 'imported', 'imported-renamed', 'imported-deep', 'imported-deep-clash', 'imported-alias']


def split(text):
    units = {m[1]: m[0] for m in re.findall(r'^  (<units name="([^"]+)">.*?</units>)$', text, re.M)}
    comps = {}
    for m in re.finditer(r'^  <component name="([^"]+)"(?:/>|>.*?^  </component>)\n', text, re.M | re.S):
        comps[m.group(1)] = m.group(0)
    conns = re.findall(r'^  <connection .*?^  </connection>\n', text, re.M | re.S)
    return units, comps, conns


def used_units(block, units):
    names = set(re.findall(r' units="([^"]+)"', block)) | set(re.findall(r'cellml:units="([^"]+)"', block))
    return [n for n in units if n in names]


def rename_units(block, mapping):
    def f(m):
        return '%s"%s"' % (m.group(1), mapping.get(m.group(2), m.group(2)))
    return re.sub(r'( units=|cellml:units=|<units name=)"([^"]+)"', f, block)


def modularise(text, rng, force_policy=None):
    units, comps, conns = split(text)
    names = list(comps)
    if len(names) < 2:
        return None
    moved = [n for n in names if rng.random() < 0.6]
    if not moved:
        moved = [rng.choice(names)]
    if len(moved) == len(names) and rng.random() < 0.5:
        moved.remove(rng.choice(moved))
    nlib = rng.randint(1, min(2, len(moved)))
    libs = {'lib%d.cellml' % i: [] for i in range(nlib)}
    for n in moved:
        libs[rng.choice(sorted(libs))].append(n)
    libs = {k: v for k, v in libs.items() if v}
    files, policy, srcname = {}, {}, {}
    need_ulib = {}
    for lf, cs in libs.items():
        pol = force_policy or rng.choice(POLICIES)
        blocks = []
        for n in cs:
            src = n if rng.random() < 0.5 else 'src_' + n
            srcname[n] = src
            b = comps[n].replace('<component name="%s"' % n, '<component name="%s"' % src, 1)
            if rng.random() < 0.5 and 'cellml:units="dimensionless"' in b:
                # units that only cn elements use (several of them, in different equations), defined in the library
                b = b.replace('cellml:units="dimensionless"', 'cellml:units="cnu_%s"' % n, rng.choice([1, 2, 3, 5]))
            blocks.append(b)
        body = ''.join(blocks)
        need = used_units(body, units)
        cn_only = sorted(set(re.findall(r'cellml:units="(cnu_[^"]+)"', body)))
        defs = [units[u] for u in need]
        mapping = {}
        if pol == 'renamed':
            mapping = {u: 'L_' + u for u in need}
        elif pol == 'clash':
            others = [u for u in units if u not in need]
            if need and others:
                mapping = {need[0]: others[0]}
            else:
                pol = 'same'
        text_units = ''
        if pol.startswith('imported') and need:
            inner = ''
            for u in need:
                local = ('I_' + u) if pol == 'imported-renamed' else u
                mapping[u] = local
                inner += '<units units_ref="%s" name="%s"/>' % (u, local)
                if pol == 'imported-alias':
                    mapping[u] = 'A_' + u
                    inner = inner[:inner.rindex('<units ')] + '<units units_ref="A_%s" name="A_%s"/>' % (u, u)
                    need_ulib[u] = units[u]
                    need_ulib['A_' + u] = '<units name="A_%s"><unit units="%s"/></units>' % (u, u)
                elif pol.startswith('imported-deep'):
                    # the imported units are defined through an intermediate units of the third file
                    base = re.search(r'<unit units="([^"]+)"', units[u]).group(1)
                    need_ulib[u] = units[u].replace('<unit units="%s"' % base, '<unit units="alias_%s"' % u, 1)
                    need_ulib['alias_' + u] = '<units name="alias_%s"><unit units="%s"/></units>' % (u, base)
                else:
                    need_ulib[u] = units[u]
            text_units = IMPORT % ('ulib.cellml', inner)
            if pol == 'imported-alias':
                text_units += ''.join('  %s\n' % units[u] for u in need)
                # one of the variables keeps the units the library defines itself
                m1 = re.search(r'<variable name="[^"]+" units="(%s)"' % '|'.join(map(re.escape, need)), body)
                keep = m1.group(0) if m1 and rng.random() < 0.5 else None
            body = rename_units(body, mapping)
            if pol == 'imported-alias' and keep:
                body = body.replace(rename_units(keep, mapping), keep, 1)
            if pol == 'imported-deep-clash':
                # the library has units of its own under the name of the intermediate units, with another meaning
                u = need[0]
                text_units += '  <units name="alias_%s"><unit units="second" multiplier="7"/></units>\n' % u
                if 'cellml:units="dimensionless"' in body:
                    body = body.replace('cellml:units="dimensionless"', 'cellml:units="alias_%s"' % u, 1)
        else:
            text_units = ''.join('  %s\n' % rename_units(d, mapping) for d in defs)
            body = rename_units(body, mapping)
        for c in cn_only:
            nm = c
            if rng.random() < 0.5 and 'percent' in units and 'percent' not in need and '"percent"' not in body:
                # ... under a name that the importing model uses for other units: they have to be renamed
                nm = 'percent'
                body = body.replace('cellml:units="%s"' % c, 'cellml:units="percent"')
            text_units += '  <units name="%s"><unit units="dimensionless"/></units>\n' % nm
        files[lf] = HEAD % lf.replace('.', '_') + text_units + body + '</model>\n'
        policy[lf] = pol
    if need_ulib:
        files['ulib.cellml'] = HEAD % 'ulib' + ''.join('  %s\n' % d for d in need_ulib.values()) + '</model>\n'
    # the importing model
    o = text
    imports = ''
    for lf, cs in libs.items():
        if rng.random() < 0.5:
            imports += IMPORT % (lf, ''.join('<component component_ref="%s" name="%s"/>' % (srcname[n], n) for n in cs))
        else:
            for n in cs:
                imports += IMPORT % (lf, '<component component_ref="%s" name="%s"/>' % (srcname[n], n))
    for n in moved:
        o = o.replace(comps[n], '', 1)
    first_units = o.index('  <units ') if '  <units ' in o else o.index('  <component ') if '  <component ' in o else o.index('  <connection ') if '  <connection ' in o else o.index('</model>')
    o = o[:first_units] + imports + o[first_units:]
    files['origin.cellml'] = o
    return dict(files=files, origin='origin.cellml', moved=moved, policy=policy, srcname=srcname, cn_only_moved=[n for n in moved])
