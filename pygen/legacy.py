"""Mechanical rewriting of a generated CellML 2.0 document (pygen/docs.py, reset-free) into CellML 1.0 / 1.1 syntax (C14)."""
import re

NS = {'1.0': 'http://www.cellml.org/cellml/1.0#', '1.1': 'http://www.cellml.org/cellml/1.1#'}


def split_encapsulation(t, rng):
    """the one <encapsulation> block of a printed 2.0 document rewritten as several: the roots are dealt out to two or three
    blocks in their order, and the subtree of a component that is the last child of its parent may be cut out and described
    by a block of its own further down (where it stands, a childless component_ref is left)"""
    m = re.search(r'(  <encapsulation[^>]*>\n)(.*?)(  </encapsulation>\n)', t, re.S)
    if not m or rng.random() < 0.35:
        return t
    lines = m.group(2).split('\n')[:-1]
    extra = []
    # cut out the subtree of a last child
    if rng.random() < 0.5:
        cands = []
        for i, l in enumerate(lines):
            ind = len(l) - len(l.lstrip())
            if ind >= 6 and l.strip().startswith('<component_ref') and not l.rstrip().endswith('/>'):
                j = next(k for k in range(i + 1, len(lines)) if lines[k] == ' ' * ind + '</component_ref>')
                if j + 1 < len(lines) and lines[j + 1] == ' ' * (ind - 2) + '</component_ref>':
                    cands.append((i, j, ind))
        if cands:
            i, j, ind = rng.choice(cands)
            sub = [l[ind - 4:] for l in lines[i:j + 1]]
            name = re.search(r'component="([^"]*)"', lines[i]).group(1)
            lines = lines[:i] + [' ' * ind + '<component_ref component="%s"/>' % name] + lines[j + 1:]
            extra = sub
    roots, cur = [], []
    for l in lines:
        cur.append(l)
        if l.startswith('    <component_ref') and l.rstrip().endswith('/>') and len(cur) == 1 or l == '    </component_ref>':
            roots.append(cur); cur = []
    if cur:
        return t
    k = rng.randint(1, min(3, len(roots))) if roots else 1
    cuts = sorted(rng.sample(range(1, len(roots)), k - 1)) if k > 1 else []
    parts = [roots[a:b] for a, b in zip([0] + cuts, cuts + [len(roots)])]
    blocks = []
    for n, part in enumerate(parts):
        blocks.append((m.group(1) if n == 0 else '  <encapsulation>\n') + ''.join(l + '\n' for r in part for l in r) + m.group(3))
    if extra:
        blocks.append('  <encapsulation>\n' + ''.join(l + '\n' for l in extra) + m.group(3))
    return t[:m.start()] + ''.join(blocks) + t[m.end():]


def to1x(text, version, rng, respell_math=False, math_cmeta=False):
    t = text.replace('http://www.cellml.org/cellml/2.0#', NS[version])
    t = t.replace('<model xmlns=', '<model xmlns:cmeta="http://www.cellml.org/metadata/1.0#" xmlns=', 1)
    t = re.sub(r' id="', ' cmeta:id="', t)
    if not math_cmeta:
        t = re.sub(r'(<math [^>]*?) cmeta:id="', r'\1 id="', t)      # ids of MathML elements stay MathML ids
    # (with math_cmeta the math elements carry cmeta:id, as 1.x models do: the prefix is declared on the model element only)
    # interfaces
    def iface(m):
        v = m.group(1)
        d = lambda: rng.choice(['in', 'out'])
        if v == 'public':
            return ' public_interface="%s"%s' % (d(), rng.choice(['', ' private_interface="none"']))
        if v == 'private':
            return '%s private_interface="%s"' % (rng.choice(['', ' public_interface="none"']), d())
        if v == 'public_and_private':
            a, b = ' public_interface="%s"' % d(), ' private_interface="%s"' % d()
            return a + b if rng.random() < 0.5 else b + a
        return rng.choice(['', ' public_interface="none"', ' private_interface="none" public_interface="none"'])
    t = re.sub(r' interface="(\w+)"', iface, t)
    # a 1.x unit may carry an offset, which 2.0 cannot represent (dropped with a message)
    if rng.random() < 0.4:
        t = re.sub(r'<unit ', lambda m: '<unit offset="%s" ' % rng.choice(['273.15', '0', '-32']) if rng.random() < 0.3 else m.group(0), t)
    # encapsulation: a 1.x model may describe its hierarchy with several groups
    t = split_encapsulation(t, rng)
    # a 1.x group may carry several relationship_ref elements (encapsulation and a named containment hierarchy), in any order;
    # a group that only describes containment is not encapsulation and is dropped
    def group(m):
        refs = ['<relationship_ref relationship="encapsulation"/>']
        r = rng.random()
        if r < 0.25:
            refs.append('<relationship_ref relationship="containment" name="anatomy"/>')
        elif r < 0.5:
            refs.insert(0, '<relationship_ref relationship="containment" name="anatomy"/>')
        return '<group%s>%s' % (m.group(1), ''.join(refs))
    t = re.sub(r'<encapsulation([^>]*)>', group, t)
    t = t.replace('</encapsulation>', '</group>')
    comps = re.findall(r'<component name="([^"]*)"', t)
    if len(comps) >= 2 and rng.random() < 0.25:
        a, b = rng.sample(comps, 2)
        extra = '  <group><relationship_ref relationship="containment" name="physical"/><component_ref component="%s"><component_ref component="%s"/></component_ref></group>\n' % (a, b)
        t = t.replace('</model>', extra + '</model>', 1)
    # connections
    t = re.sub(r'<connection component_1="([^"]*)" component_2="([^"]*)"([^>]*)>', r'<connection><map_components component_1="\1" component_2="\2"\3/>', t)
    # the map_components element may stand anywhere among the map_variables elements
    def reorder(m):
        kids = re.findall(r'<map_(?:components|variables)[^>]*/>', m.group(2))
        if len(kids) < 2 or rng.random() < 0.5:
            return m.group(0)
        mc = kids.pop(0)
        kids.insert(rng.randint(1, len(kids)), mc)
        sep = re.search(r'/>(\s*)<', m.group(2))
        return m.group(1) + (sep.group(1) if sep else '').join(kids) + m.group(3)
    t = re.sub(r'(<connection>\s*)(.*?)(\s*</connection>)', reorder, t, flags=re.S)
    # spellings
    def spell(m):
        w = m.group(2)
        if rng.random() < 0.6:
            w = {'litre': 'liter', 'metre': 'meter'}[w]
        return '%s"%s"' % (m.group(1), w)
    t = re.sub(r'( units=|cellml:units=)"(litre|metre)"' if respell_math else r'( units=)"(litre|metre)"', spell, t)
    # units declared inside a component: move a childless-or-not model-level units into the first component that uses it... kept simple:
    # move the last model-level <units> block into the first component
    blocks = list(re.finditer(r'  <units name="(u\d+)"[^>]*?(/>|>.*?</units>)\n', t, re.S))
    if blocks and rng.random() < 0.6:
        b = blocks[-1]
        comp = re.search(r'  <component name="c\d+"[^/>]*>\n', t)
        if comp:
            blk = b.group(0)
            t = t[:b.start()] + t[b.end():]
            comp = re.search(r'  <component name="c\d+"[^/>]*>\n', t)
            t = t[:comp.end()] + '  ' + blk.replace('\n    ', '\n      ') + t[comp.end():]
    return t
