"""C03: generator of analyser-shaped expression ASTs, reference semantics (MathML), and the
execution oracle (generated C compiled with gcc, generated Python exec-ed).

AST: None | ('cn', text) | ('ci', name) | (TYPE, left, right)
"""
import math, os, subprocess, tempfile, shutil

REL = ['EQ', 'NEQ', 'LT', 'LEQ', 'GT', 'GEQ']
LOGIC = ['AND', 'OR', 'XOR']
ARITH = ['PLUS', 'MINUS', 'TIMES', 'DIVIDE']
FUN1 = ['ABS', 'EXP', 'LN', 'CEILING', 'FLOOR', 'SIN', 'COS', 'TAN', 'SEC', 'CSC', 'COT', 'SINH', 'COSH', 'TANH', 'SECH', 'CSCH',
        'COTH', 'ASIN', 'ACOS', 'ATAN', 'ASEC', 'ACSC', 'ACOT', 'ASINH', 'ACOSH', 'ATANH', 'ASECH', 'ACSCH', 'ACOTH']
FUN2 = ['MIN', 'MAX', 'REM']
CONST = ['TRUE', 'FALSE', 'E', 'PI', 'INF', 'NAN']
CONST_VALUES = {}
VARS = ['x0', 'x1', 'x2', 'x3', 'x4', 'x5']
NUMS = ['1', '2', '3', '0.5', '2.0', '10', '10.0', '1.0', '0', '7.5', '-1', '-2', '-0.5', '-3.0', '1e2', '2.5e-1', '-1e1', '4', '0.25', '-0.0', '1E2', '5E-1', '3.5E1']

# node kinds the generator chooses among (weights favour operators whose parenthesisation matters)
KINDS = (REL * 2 + LOGIC * 3 + ['NOT'] * 3 + ['PLUS', 'MINUS', 'TIMES', 'DIVIDE'] * 4 + ['UPLUS', 'UMINUS'] * 4 +
         ['POWER'] * 3 + ['ROOT', 'ROOTD', 'LOG', 'LOGB'] * 2 + ['PIECEWISE'] * 6 + FUN2 + ['SIN', 'ABS', 'EXP', 'COS', 'TANH', 'FLOOR', 'ATAN'] + ['F1'])


def leaf(rng):
    r = rng.random()
    if r < 0.5:
        return ('ci', rng.choice(VARS))
    if r < 0.92:
        return ('cn', rng.choice(NUMS))
    return (rng.choice(CONST), None, None)


def gen(rng, depth, kinds=KINDS):
    if depth <= 0 or rng.random() < 0.12:
        return leaf(rng)
    k = rng.choice(kinds)
    g = lambda: gen(rng, depth - 1, kinds)
    if k in REL or k in LOGIC or k in ('PLUS', 'MINUS', 'TIMES', 'DIVIDE', 'POWER') or k in FUN2:
        return (k, g(), g())
    if k == 'NOT':
        return ('NOT', g(), None)
    if k == 'UPLUS':
        return ('PLUS', g(), None)
    if k == 'UMINUS':
        return ('MINUS', g(), None)
    if k == 'ROOT':
        return ('ROOT', g(), None)
    if k == 'ROOTD':
        return ('ROOT', ('DEGREE', g(), None), g())
    if k == 'LOG':
        return ('LOG', g(), None)
    if k == 'LOGB':
        return ('LOG', ('LOGBASE', g(), None), g())
    if k == 'F1':
        return (rng.choice(FUN1), g(), None)
    if k == 'PIECEWISE':
        n = rng.randint(1, 3)
        pieces = [('PIECE', g(), g()) for _ in range(n)]
        other = ('OTHERWISE', g(), None) if rng.random() < 0.6 else None
        return chain(pieces, other)
    return (k, g(), None)


def chain(pieces, other):
    """the tree analyseNode builds for <piecewise>: children = pieces (+ otherwise)"""
    kids = pieces + ([other] if other else [])
    if len(kids) == 1:
        return ('PIECEWISE', kids[0], None)
    right = kids[-1]
    for i in range(len(kids) - 2, 0, -1):
        right = ('PIECEWISE', kids[i], right)
    return ('PIECEWISE', kids[0], right)


def hexs(s):
    return '#' + s.encode('latin-1').hex()


def sexp(a):
    if a is None:
        return '_'
    if a[0] in ('cn', 'ci'):
        return '(%s %s)' % (a[0], hexs(a[1]))
    return '(%s %s %s)' % (a[0], sexp(a[1]), sexp(a[2]))


def show(a):
    """MathML-like prefix rendering for messages"""
    if a is None:
        return '_'
    if a[0] in ('cn', 'ci'):
        return a[1]
    if a[1] is None and a[2] is None:
        return a[0].lower()
    return a[0].lower() + '(' + ', '.join(show(x) for x in a[1:] if x is not None) + ')'


def size(a):
    return 0 if a is None or a[0] in ('cn', 'ci') else 1 + size(a[1]) + size(a[2])


def types_in(a, acc):
    if a is None or a[0] in ('cn', 'ci'):
        return acc
    acc.add(a[0] + ('1' if a[0] in ('PLUS', 'MINUS', 'ROOT', 'LOG') and a[2] is None else ''))
    types_in(a[1], acc); types_in(a[2], acc)
    return acc


def edges_in(a, acc):
    """(parent type, side, child type) triples"""
    if a is None or a[0] in ('cn', 'ci'):
        return acc
    for side, c in (('L', a[1]), ('R', a[2])):
        if c is not None:
            ck = c[0].upper() if c[0] in ('cn', 'ci') else c[0] + ('1' if c[0] in ('PLUS', 'MINUS') and c[2] is None else '')
            acc.add((a[0] + ('1' if a[0] in ('PLUS', 'MINUS') and a[2] is None else ''), side, ck))
        edges_in(c, acc)
    return acc


# reference semantics -------------------------------------------------------------------------
class Undefined(Exception):
    pass


def tobool(x):
    return x != 0.0   # NaN is "true" in C (non-zero) and in Python (bool(nan))


def ev(a, env):
    t = a[0]
    if t == 'cn':
        return float(a[1])
    if t == 'ci':
        return env[a[1]]
    L = lambda: ev(a[1], env)
    R = lambda: ev(a[2], env)
    B = lambda b: 1.0 if b else 0.0
    try:
        if t == 'EQ': return B(L() == R())
        if t == 'NEQ': return B(L() != R())
        if t == 'LT': return B(L() < R())
        if t == 'LEQ': return B(L() <= R())
        if t == 'GT': return B(L() > R())
        if t == 'GEQ': return B(L() >= R())
        if t == 'AND': return B(tobool(L()) and tobool(R()))
        if t == 'OR': return B(tobool(L()) or tobool(R()))
        if t == 'XOR': return B(tobool(L()) != tobool(R()))
        if t == 'NOT': return B(not tobool(L()))
        if t == 'PLUS': return L() if a[2] is None else L() + R()
        if t == 'MINUS': return -L() if a[2] is None else L() - R()
        if t == 'TIMES': return L() * R()
        if t == 'DIVIDE': return cdiv(L(), R())
        if t == 'POWER': return cpow(L(), R())
        if t == 'ROOT':
            if a[2] is None: return csqrt(L())
            return cpow(R(), cdiv(1.0, ev(a[1][1], env)))
        if t == 'LOG':
            if a[2] is None: return clog(L()) / math.log(10.0) if False else clog10(L())
            return cdiv(clog(R()), clog(ev(a[1][1], env)))
        if t in ('DEGREE', 'LOGBASE', 'OTHERWISE'): return L()
        if t == 'PIECEWISE':
            p = a[1]
            if tobool(ev(p[2], env)): return ev(p[1], env)
            if a[2] is None: return math.nan
            if a[2][0] == 'PIECE':
                q = a[2]
                return ev(q[1], env) if tobool(ev(q[2], env)) else math.nan
            return ev(a[2], env)
        if t == 'TRUE': return 1.0
        if t == 'FALSE': return 0.0
        if t == 'E': return CONST_VALUES.get('eString', math.e)
        if t == 'PI': return CONST_VALUES.get('piString', math.pi)
        if t == 'INF': return math.inf
        if t == 'NAN': return math.nan
        if t == 'MIN': return min2(L(), R())
        if t == 'MAX': return max2(L(), R())
        if t == 'REM': return math.fmod(L(), R())
        x = L()
        return FUNS[t](x)
    except (ValueError, ZeroDivisionError, OverflowError):
        raise Undefined()


def cdiv(x, y):
    if y == 0.0 or math.isnan(x) or math.isnan(y) or math.isinf(x) and math.isinf(y):
        raise Undefined()
    return x / y


def cpow(x, y):
    r = math.pow(x, y)
    return r


def csqrt(x):
    return math.sqrt(x)


def clog(x):
    return math.log(x)


def clog10(x):
    return math.log10(x)


def min2(x, y):
    if math.isnan(x) or math.isnan(y): raise Undefined()
    return x if x < y else y


def max2(x, y):
    if math.isnan(x) or math.isnan(y): raise Undefined()
    return x if x > y else y


FUNS = {
    'ABS': math.fabs, 'EXP': math.exp, 'LN': math.log, 'CEILING': lambda x: float(math.ceil(x)), 'FLOOR': lambda x: float(math.floor(x)),
    'SIN': math.sin, 'COS': math.cos, 'TAN': math.tan, 'SEC': lambda x: 1 / math.cos(x), 'CSC': lambda x: 1 / math.sin(x),
    'COT': lambda x: 1 / math.tan(x), 'SINH': math.sinh, 'COSH': math.cosh, 'TANH': math.tanh, 'SECH': lambda x: 1 / math.cosh(x),
    'CSCH': lambda x: 1 / math.sinh(x), 'COTH': lambda x: 1 / math.tanh(x), 'ASIN': math.asin, 'ACOS': math.acos, 'ATAN': math.atan,
    'ASEC': lambda x: math.acos(1 / x), 'ACSC': lambda x: math.asin(1 / x), 'ACOT': lambda x: math.atan(1 / x), 'ASINH': math.asinh,
    'ACOSH': math.acosh, 'ATANH': math.atanh, 'ASECH': lambda x: math.acosh(1 / x), 'ACSCH': lambda x: math.asinh(1 / x),
    'ACOTH': lambda x: math.atanh(1 / x)}

VALUATIONS = [
    {'x0': 0.0, 'x1': 1.0, 'x2': 2.0, 'x3': 0.0, 'x4': 3.0, 'x5': 1.0},
    {'x0': 1.0, 'x1': 0.0, 'x2': 0.0, 'x3': 5.0, 'x4': 1.0, 'x5': 0.0},
    {'x0': 0.3, 'x1': 1.7, 'x2': 2.9, 'x3': 0.7, 'x4': 4.1, 'x5': 1.3},
    {'x0': 2.3, 'x1': 0.6, 'x2': 1.1, 'x3': 3.7, 'x4': 0.2, 'x5': 5.9},
    {'x0': -1.5, 'x1': 2.0, 'x2': -0.5, 'x3': 1.0, 'x4': 0.0, 'x5': -2.0},
    {'x0': 0.0, 'x1': 0.0, 'x2': 1.0, 'x3': 1.0, 'x4': 0.0, 'x5': 1.0}]


def same(x, y):
    if isinstance(x, str) or isinstance(y, str):
        return x == y
    if math.isnan(x) or math.isnan(y):
        return math.isnan(x) and math.isnan(y)
    if math.isinf(x) or math.isinf(y):
        return x == y
    return abs(x - y) <= 1e-9 * max(1.0, abs(x), abs(y))


def reference(a):
    out = []
    for env in VALUATIONS:
        try:
            out.append(ev(a, env))
        except Undefined:
            out.append('undef')
    return out


# execution of the generated text ---------------------------------------------------------------
def run_python(codes, helpers):
    """codes: list of expression texts (Python profile).  Returns per code a list of values / 'undef' / 'syntax'."""
    glob = {}
    exec('from math import *\n' + '\n'.join(helpers), glob)
    res = []
    for c in codes:
        try:
            co = compile(c, '<gen>', 'eval')
        except SyntaxError:
            res.append(['syntax'] * len(VALUATIONS)); continue
        vals = []
        for env in VALUATIONS:
            g = dict(glob); g.update(env)
            try:
                vals.append(float(eval(co, g)))
            except (ValueError, ZeroDivisionError, OverflowError):
                vals.append('undef')
            except Exception as e:
                vals.append('error:' + type(e).__name__)
        res.append(vals)
    return res


def run_c(codes, helpers, workdir, nproc=16):
    """codes: list of expression texts (C profile).  One translation unit per batch (batches compiled in parallel);
    expressions that do not compile are found by bisection (reported 'syntax'), a crashing executable 'crash'."""
    from concurrent.futures import ThreadPoolExecutor
    import threading
    counter = [0]
    lock = threading.Lock()
    def build(idx):
        with lock:
            counter[0] += 1; tag = counter[0]
        src = ['#include <math.h>', '#include <stdio.h>'] + helpers
        for k in idx:
            src.append('static double f%d(const double *x)\n{\n    double x0 = x[0], x1 = x[1], x2 = x[2], x3 = x[3], x4 = x[4], x5 = x[5];\n'
                       '    (void)x0; (void)x1; (void)x2; (void)x3; (void)x4; (void)x5;\n    return %s;\n}' % (k, codes[k]))
        src.append('int main(void)\n{\n    static const double v[%d][6] = {%s};' % (len(VALUATIONS), ', '.join(
            '{' + ', '.join(repr(env[n]) for n in VARS) + '}' for env in VALUATIONS)))
        for k in idx:
            src.append('    printf("%d");' % k + ' for (int i = 0; i < %d; ++i) printf(" %%.17g", f%d(v[i])); printf("\\n");' % (len(VALUATIONS), k))
        src.append('    return 0;\n}')
        cf = os.path.join(workdir, 'b%d.c' % tag); ex = os.path.join(workdir, 'b%d.out' % tag)
        open(cf, 'w').write('\n'.join(src) + '\n')
        try:
            r = subprocess.run(['gcc', '-std=c99', '-O0', '-w', '-fno-builtin', cf, '-o', ex, '-lm'], capture_output=True, text=True)
            if r.returncode != 0:
                return 'compile'
            r = subprocess.run([ex], capture_output=True, text=True)
            if r.returncode != 0:
                return 'crash'
        finally:
            for f in (cf, ex):
                if os.path.exists(f):
                    os.unlink(f)
        out = {}
        for l in r.stdout.split('\n'):
            t = l.split()
            if t:
                out[int(t[0])] = [float(x) for x in t[1:]]
        return out
    res = {}
    def go(idx):
        if not idx:
            return
        out = build(idx)
        if not isinstance(out, str):
            with lock:
                res.update(out)
            return
        if len(idx) == 1:
            with lock:
                res[idx[0]] = ['syntax' if out == 'compile' else 'crash'] * len(VALUATIONS)
            return
        go(idx[:len(idx) // 2]); go(idx[len(idx) // 2:])
    B = 150
    batches = [list(range(i, min(i + B, len(codes)))) for i in range(0, len(codes), B)]
    with ThreadPoolExecutor(nproc) as ex:
        list(ex.map(go, batches))
    return [res[k] for k in range(len(codes))]


def systematic():
    """every parent operator over every kind of operand (depth 2), plus the qualifier / piecewise positions"""
    a, b, c, d = ('ci', 'x0'), ('ci', 'x1'), ('ci', 'x2'), ('ci', 'x3')
    def kids(l1, l2):
        ks = [l1, ('cn', '-2'), ('cn', '2'), ('cn', '-0.0')]
        for t in REL[:3] + LOGIC + ['PLUS', 'MINUS', 'TIMES', 'DIVIDE', 'POWER', 'MIN']:
            ks.append((t, l1, l2))
        ks += [('NOT', l1, None), ('PLUS', l1, None), ('MINUS', l1, None), ('PLUS', ('PLUS', l1, l2), None), ('MINUS', ('cn', '-2'), None),
               ('MINUS', ('TIMES', l1, l2), None), ('MINUS', ('DIVIDE', l1, l2), None), ('PLUS', ('MINUS', l1, None), None),
               ('ROOT', l1, None), ('ROOT', ('DEGREE', l2, None), l1), ('LOG', ('LOGBASE', l2, None), l1), ('LOG', ('LOGBASE', ('cn', '10'), None), l1),
               ('POWER', l1, ('cn', '0.5')), ('POWER', l1, ('cn', '-0.5')), ('POWER', l1, ('cn', '2')), ('POWER', l1, ('MINUS', ('cn', '0.5'), None)),
               ('ROOT', ('DEGREE', ('cn', '2'), None), l1), ('ROOT', ('DEGREE', ('cn', '-2'), None), l1), ('SIN', l1, None), ('TIMES', ('cn', '-2'), l1)]
        ks += [('PIECEWISE', ('PIECE', l1, l2), None), ('PIECEWISE', ('PIECE', l1, l2), ('OTHERWISE', l2, None))]
        return ks
    trees = []
    K1 = kids(a, b); K2 = kids(c, d)
    for P in REL + LOGIC + ['PLUS', 'MINUS', 'TIMES', 'DIVIDE', 'POWER', 'MIN']:
        for k1 in K1:
            for k2 in K2:
                trees.append((P, k1, k2))
    for k1 in K1:
        trees += [('NOT', k1, None), ('PLUS', k1, None), ('MINUS', k1, None), ('ROOT', k1, None), ('SIN', k1, None), ('LOG', k1, None)]
        for k2 in K2:
            trees += [('ROOT', ('DEGREE', k1, None), k2), ('LOG', ('LOGBASE', k1, None), k2), ('PIECEWISE', ('PIECE', k1, k2), None),
                      ('PIECEWISE', ('PIECE', a, b), ('OTHERWISE', k1, None)), ('PIECEWISE', ('PIECE', k1, k2), ('PIECE', c, d)),
                      ('PIECEWISE', ('PIECE', a, k1), ('PIECEWISE', ('PIECE', k2, d), ('OTHERWISE', c, None)))]
    return trees


def from_json(o):
    if o is None:
        return None
    if o[0] in ('cn', 'ci'):
        return (o[0], o[1])
    return (o[0], from_json(o[1]), from_json(o[2]))


def discrete(a):
    """no operation whose result can jump on a rounding difference except comparisons of leaves: a single-valuation
    mismatch is then a real difference"""
    if a is None or a[0] in ('cn', 'ci'):
        return True
    if a[0] in FUN1 or a[0] in ('POWER', 'ROOT', 'LOG', 'DIVIDE', 'REM', 'E', 'PI'):
        return False
    return discrete(a[1]) and discrete(a[2])


def subtrees(a, acc):
    """expression subtrees (qualifier and piece nodes are not expressions by themselves)"""
    if a is None or a[0] in ('cn', 'ci'):
        return acc
    if a[0] not in ('DEGREE', 'LOGBASE', 'PIECE', 'OTHERWISE'):
        acc.append(a)
    subtrees(a[1], acc); subtrees(a[2], acc)
    return acc


def gen_typed(rng, depth, want='num'):
    """expressions in which truth values and numbers are not mixed: conditions, operands of and / or / xor / not are
    boolean; operands of arithmetic, relations and functions are numbers"""
    if want == 'bool':
        if depth <= 0:
            return (rng.choice(REL), leaf_num(rng), leaf_num(rng))
        k = rng.choice(REL * 2 + LOGIC + ['NOT', 'CONST'])
        if k in REL:
            return (k, gen_typed(rng, depth - 1), gen_typed(rng, depth - 1))
        if k in LOGIC:
            return (k, gen_typed(rng, depth - 1, 'bool'), gen_typed(rng, depth - 1, 'bool'))
        if k == 'NOT':
            return ('NOT', gen_typed(rng, depth - 1, 'bool'), None)
        return (rng.choice(['TRUE', 'FALSE']), None, None)
    if depth <= 0 or rng.random() < 0.12:
        return leaf_num(rng)
    k = rng.choice(['PLUS', 'MINUS', 'TIMES', 'DIVIDE'] * 4 + ['UPLUS', 'UMINUS'] * 2 + ['POWER', 'ROOT', 'ROOTD', 'LOG', 'LOGB'] + ['PIECEWISE'] * 4 + FUN2 + ['F1'] * 4)
    g = lambda: gen_typed(rng, depth - 1)
    b = lambda: gen_typed(rng, depth - 1, 'bool')
    if k in ('PLUS', 'MINUS', 'TIMES', 'DIVIDE', 'POWER') or k in FUN2:
        return (k, g(), g())
    if k == 'UPLUS': return ('PLUS', g(), None)
    if k == 'UMINUS': return ('MINUS', g(), None)
    if k == 'ROOT': return ('ROOT', g(), None)
    if k == 'ROOTD': return ('ROOT', ('DEGREE', g(), None), g())
    if k == 'LOG': return ('LOG', g(), None)
    if k == 'LOGB': return ('LOG', ('LOGBASE', g(), None), g())
    if k == 'F1': return (rng.choice(FUN1), g(), None)
    n = rng.randint(1, 3)
    pieces = [('PIECE', g(), b()) for _ in range(n)]
    other = ('OTHERWISE', g(), None) if rng.random() < 0.6 else None
    return chain(pieces, other)


def leaf_num(rng):
    r = rng.random()
    if r < 0.55:
        return ('ci', rng.choice(VARS))
    if r < 0.93:
        return ('cn', rng.choice(NUMS))
    return (rng.choice(['E', 'PI']), None, None)


def c_int_typed(t):
    """is the C expression generated for the tree of type int (a truth value, or arithmetic on truth values only)?"""
    if t is None or t[0] in ('cn', 'ci'):
        return False
    k = t[0]
    if k in ('EQ', 'NEQ', 'LT', 'LEQ', 'GT', 'GEQ', 'AND', 'OR', 'NOT'):
        return True
    if k in ('PLUS', 'MINUS', 'TIMES', 'DIVIDE'):
        return c_int_typed(t[1]) and (t[2] is None or c_int_typed(t[2]))
    if k == 'PIECEWISE':
        cur = t
        while True:
            if not c_int_typed(cur[1][1]):
                return False
            r = cur[2]
            if r is None:
                return False            # NAN closes the conditional: double
            if r[0] == 'OTHERWISE':
                return c_int_typed(r[1])
            if r[0] == 'PIECE':
                return False
            cur = r
    return False


def has_int_division(t):
    """a division both of whose operands are of type int in the generated C: an integer division there"""
    if t is None or t[0] in ('cn', 'ci'):
        return False
    if t[0] == 'DIVIDE' and t[2] is not None and c_int_typed(t[1]) and c_int_typed(t[2]):
        return True
    return any(has_int_division(c) for c in t[1:] if isinstance(c, tuple))
