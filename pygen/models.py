"""Ground-truth model systems (C03 execution oracle; reused by C05 / C17 / C20).

A system is a list of *quantities* (equivalence classes of CellML variables).  Every quantity has a base value and
members (component, name, units) whose numeric value is base / scale(units).  Kinds:
  voi | const (initial value) | cconst (equation over constants) | state (initial value + ODE) | alg (equation)
Equations live in the home component of the quantity and read the local members of the quantities they use.
"""
import math, os, subprocess, random, re
import exprs as X

# units: name -> (dimension, scale, definition or None for a standard unit)
UNITS = {
    'dimensionless': ('one', 1.0, None),
    'percent': ('one', 0.01, '<units name="percent"><unit units="dimensionless" multiplier="0.01"/></units>'),
    'second': ('time', 1.0, None),
    'ms': ('time', 1e-3, '<units name="ms"><unit units="second" prefix="milli"/></units>'),
    'minute': ('time', 60.0, '<units name="minute"><unit units="second" multiplier="60"/></units>'),
    'metre': ('len', 1.0, None),
    'mm': ('len', 1e-3, '<units name="mm"><unit units="metre" prefix="milli"/></units>'),
    'km': ('len', 1e3, '<units name="km"><unit units="metre" prefix="kilo"/></units>'),
    'volt': ('pot', 1.0, None),
    'mV': ('pot', 1e-3, '<units name="mV"><unit units="volt" prefix="milli"/></units>'),
    # gram and litre are the two standard units that carry a factor of their own (1e-3 kg, 1e-3 m^3); here with exponents other
    # than 1 (prefixes only on children of exponent 1: see C08)
    'kg_per_m3': ('dens', 1.0, '<units name="kg_per_m3"><unit units="kilogram"/><unit units="metre" exponent="-3"/></units>'),
    'g_per_L': ('dens', 1.0, '<units name="g_per_L"><unit units="gram"/><unit units="litre" exponent="-1"/></units>'),
    'mg_per_L': ('dens', 1e-3, '<units name="mg_per_L"><unit units="gram" prefix="milli"/><unit units="litre" exponent="-1"/></units>'),
    'm6': ('vol2', 1.0, '<units name="m6"><unit units="metre" exponent="6"/></units>'),
    'L2': ('vol2', 1e-6, '<units name="L2"><unit units="litre" exponent="2"/></units>'),
}
BY_DIM = {}
for _n, (_d, _s, _x) in UNITS.items():
    BY_DIM.setdefault(_d, []).append(_n)

SAFE_KINDS = (['PLUS', 'MINUS', 'TIMES'] * 5 + ['DIVIDE'] * 2 + ['UMINUS', 'UPLUS'] * 2 + ['PIECEWISE'] * 3 + ['LT', 'GT', 'LEQ', 'GEQ', 'EQ', 'NEQ'] +
              ['AND', 'OR', 'XOR', 'NOT'] + ['POWER', 'ROOT', 'ROOTD', 'LOG', 'LOGB', 'MIN', 'MAX', 'SIN', 'COS', 'EXP', 'TANH', 'ABS', 'ATAN', 'F1'])


class Quantity:
    def __init__(self, idx, kind, dim):
        self.idx, self.kind, self.dim = idx, kind, dim
        self.members = {}      # component index -> (name, units)
        self.home = None       # component index
        self.init = None       # initial value text (in the home member's units)
        self.init_from = None  # quantity whose member initialises this one (initial_value="name")
        self.rhs = None        # expression over ('q', k) leaves
        self.base = None       # ground truth base value at the initial point
        self.rate = None       # d base / d (base time)


def leaves(a, acc):
    if a is None:
        return acc
    if a[0] == 'q':
        acc.add(a[1]); return acc
    if a[0] in ('cn', 'ci'):
        return acc
    leaves(a[1], acc); leaves(a[2], acc)
    return acc


def gen_rhs(rng, avail, depth, typed=False):
    """random expression whose identifiers are quantities from `avail` (one in six is a bare identifier)"""
    if avail and rng.random() < 0.17:
        return ('q', rng.choice(avail))
    if typed:
        def subt(a):
            if a is None:
                return None
            if a[0] == 'ci':
                return ('q', rng.choice(avail)) if avail else ('cn', rng.choice(['2', '3', '0.5']))
            if a[0] == 'cn':
                return a
            return (a[0], subt(a[1]), subt(a[2]))
        return subt(X.gen_typed(rng, depth))
    def sub(a):
        if a is None:
            return None
        if a[0] == 'ci':
            return ('q', rng.choice(avail)) if avail else ('cn', rng.choice(['2', '3', '0.5']))
        if a[0] == 'cn':
            return a
        return (a[0], sub(a[1]), sub(a[2]))
    return sub(X.gen(rng, depth, SAFE_KINDS))


def gen_system(rng, ncomp=3, nq=8, depth=3, ode=True, typed=False):
    qs = []
    if ode:
        v = Quantity(0, 'voi', 'time'); v.home = rng.randrange(ncomp); qs.append(v)
    kinds = ['const'] * 3 + ['cconst'] * 2 + ['alg'] * 4 + (['state'] * 4 if ode else [])
    for j in range(nq):
        k = 'state' if (ode and j == 0) else rng.choice(kinds)
        q = Quantity(len(qs), k, rng.choice(['one', 'one', 'time', 'len', 'pot', 'dens', 'vol2']))
        q.home = rng.randrange(ncomp)
        qs.append(q)
    # equations: dependencies respect a DAG (constants first), states and voi usable anywhere non-constant
    for q in qs:
        consts = [p.idx for p in qs if p.kind in ('const', 'cconst') and p.idx < q.idx]
        dyn = [p.idx for p in qs if p.kind in ('state', 'voi')] + [p.idx for p in qs if p.kind == 'alg' and p.idx < q.idx]
        if q.kind == 'const':
            q.init = rng.choice(['1', '2', '0.5', '3.5', '-1', '1E1', '2e-1', '7', '-0.25', '4.0'])
            cands = [c for c in consts if qs[c].kind == 'const' and qs[c].dim == q.dim and qs[c].init_from is None]
            if cands and rng.random() < 0.3:
                q.init_from = rng.choice(cands); q.init = None
        elif q.kind == 'cconst':
            q.rhs = gen_rhs(rng, consts, rng.randint(1, depth), typed)
        elif q.kind == 'state':
            q.init = rng.choice(['1', '2', '0.5', '1.5', '-1', '3', '0.1'])
            if consts and rng.random() < 0.25:
                cands = [c for c in consts if qs[c].kind == 'const' and qs[c].dim == q.dim]
                if cands:
                    q.init_from = rng.choice(cands); q.init = None
            q.rhs = gen_rhs(rng, consts + dyn + [p.idx for p in qs if p.kind == 'alg'], rng.randint(1, depth), typed)
        elif q.kind == 'alg':
            q.rhs = gen_rhs(rng, consts + dyn, rng.randint(1, depth), typed)
    finish_members(qs, rng)
    return dict(ncomp=ncomp, qs=qs, ode=ode, typed=typed)


def finish_members(qs, rng):
    """every quantity gets a member in its home component and in every component whose equations read it"""
    for q in qs:
        q.members[q.home] = ('v%d' % q.idx, rng.choice(BY_DIM[q.dim]))
    for q in qs:
        need = set(leaves(q.rhs, set()))
        if q.kind == 'state':
            need.add(0)
        if q.init_from is not None:
            need.add(q.init_from)
        for k in need:
            p = qs[k]
            if q.home not in p.members:
                p.members[q.home] = ('v%d_c%d' % (p.idx, q.home), rng.choice(BY_DIM[p.dim]))


def chain_system(rng):
    """a DAE with a chain of computed constants and an implicit equation that reads the end of the chain and a
    non-constant variable: t; x' = 1 (or x); k; c0 = 2 k; c1 = c0 + 1 [; c2 = c1 * 3]; y = 2 x; z + 0 = y + c_last; w = z + 1,
    spread over 2-4 components in random order"""
    ncomp = rng.randint(2, 4)
    qs = []
    def add(kind, dim='one', init=None, rhs=None):
        q = Quantity(len(qs), kind, dim); q.home = rng.randrange(ncomp); q.init = init; q.rhs = rhs; qs.append(q); return q.idx
    t = add('voi', 'time')
    x = add('state', 'one', init=rng.choice(['1', '2', '0.5']), rhs=('cn', '1'))
    k = add('const', 'one', init=rng.choice(['3', '2', '1.5']))
    c = add('cconst', 'one', rhs=('TIMES', ('cn', '2'), ('q', k)))
    for j in range(rng.randint(1, 3)):
        c = add('cconst', 'one', rhs=('PLUS', ('q', c), ('cn', str(j + 1))))
    y = add('alg', 'one', rhs=('TIMES', ('cn', '2'), ('q', x)))
    z = add('alg', 'one', rhs=rng.choice([('PLUS', ('q', y), ('q', c)), ('PLUS', ('q', c), ('q', y)), ('TIMES', ('q', y), ('q', c))]))
    add('alg', 'one', rhs=('PLUS', ('q', z), ('cn', '1')))
    finish_members(qs, rng)
    return dict(ncomp=ncomp, qs=qs, ode=True, typed=True, force_implicit={z})


def const_chain_system(rng):
    """deep chains of computed constants: k; c0 = 2 k; c_{j+1} = c_j + j or c_j * c_i; an algebraic (or, with a state,
    rate) equation on top of the chain; 1-3 components"""
    ncomp = rng.randint(1, 3)
    ode = rng.random() < 0.5
    qs = []
    def add(kind, dim='one', init=None, rhs=None):
        q = Quantity(len(qs), kind, dim); q.home = rng.randrange(ncomp); q.init = init; q.rhs = rhs; qs.append(q); return q.idx
    if ode:
        add('voi', 'time')
    k = add('const', 'one', init=rng.choice(['3', '2', '1.5']))
    cs = [add('cconst', 'one', rhs=('TIMES', ('cn', '2'), ('q', k)))]
    for j in range(rng.randint(2, 5)):
        a = ('q', cs[-1])
        b = ('cn', str(j + 1)) if rng.random() < 0.6 else ('q', rng.choice(cs))
        cs.append(add('cconst', 'one', rhs=(rng.choice(['PLUS', 'TIMES', 'MINUS']), a, b) if rng.random() < 0.5 else (rng.choice(['PLUS', 'TIMES']), b, a)))
    if ode:
        x = add('state', 'one', init=rng.choice(['1', '2']), rhs=('q', cs[-1]))
        add('alg', 'one', rhs=('PLUS', ('q', x), ('q', cs[-2])))
    else:
        add('alg', 'one', rhs=('PLUS', ('q', cs[-1]), ('q', cs[0])))
    finish_members(qs, rng)
    return dict(ncomp=ncomp, qs=qs, ode=ode, typed=True)


def scale(units):
    return UNITS[units][1]


def mathml(a, sysd, comp, rng):
    """MathML of an expression; same-operator left chains of plus / times / and / or are sometimes written n-ary"""
    def cn(text):
        t = text.replace('E', 'e')
        if 'e' in t:
            m, e = t.split('e')
            return '<cn cellml:units="dimensionless" type="e-notation">%s<sep/>%s</cn>' % (m, e)
        return '<cn cellml:units="dimensionless">%s</cn>' % text
    def go(a):
        if a[0] == 'cn':
            return cn(a[1])
        if a[0] == 'q':
            return '<ci>%s</ci>' % sysd['qs'][a[1]].members[comp][0]
        t = a[0]
        if t in X.CONST:
            return {'TRUE': '<true/>', 'FALSE': '<false/>', 'E': '<exponentiale/>', 'PI': '<pi/>', 'INF': '<infinity/>', 'NAN': '<notanumber/>'}[t]
        name = {'EQ': 'eq', 'NEQ': 'neq', 'LT': 'lt', 'LEQ': 'leq', 'GT': 'gt', 'GEQ': 'geq', 'AND': 'and', 'OR': 'or', 'XOR': 'xor', 'NOT': 'not',
                'PLUS': 'plus', 'MINUS': 'minus', 'TIMES': 'times', 'DIVIDE': 'divide', 'POWER': 'power', 'ROOT': 'root', 'ABS': 'abs', 'EXP': 'exp',
                'LN': 'ln', 'LOG': 'log', 'CEILING': 'ceiling', 'FLOOR': 'floor', 'MIN': 'min', 'MAX': 'max', 'REM': 'rem'}.get(t)
        if name is None:
            name = t.lower()
            for pre in ('asin', 'acos', 'atan', 'asec', 'acsc', 'acot'):
                if name.startswith(pre):
                    name = 'arc' + name[1:]
        if t == 'PIECEWISE':
            pieces = []; other = None; cur = a
            while True:
                p = cur[1]
                pieces.append('<piece>%s%s</piece>' % (go(p[1]), go(p[2])))
                r = cur[2]
                if r is None:
                    break
                if r[0] == 'PIECE':
                    pieces.append('<piece>%s%s</piece>' % (go(r[1]), go(r[2]))); break
                if r[0] == 'OTHERWISE':
                    other = '<otherwise>%s</otherwise>' % go(r[1]); break
                cur = r
            return '<piecewise>%s%s</piecewise>' % (''.join(pieces), other or '')
        if t == 'ROOT' and a[2] is not None:
            return '<apply><root/><degree>%s</degree>%s</apply>' % (go(a[1][1]), go(a[2]))
        if t == 'LOG' and a[2] is not None:
            return '<apply><log/><logbase>%s</logbase>%s</apply>' % (go(a[1][1]), go(a[2]))
        if t in ('PLUS', 'TIMES', 'AND', 'OR') and a[2] is not None and rng.random() < 0.6:
            ops = []; cur = a
            while cur[0] == t and cur[2] is not None and not (cur[0] in ('cn', 'q')):
                ops.append(cur[2]); cur = cur[1]
                if cur[0] in ('cn', 'q') or cur[0] != t:
                    break
            ops.append(cur)
            ops.reverse()
            return '<apply><%s/>%s</apply>' % (name, ''.join(go(o) for o in ops))
        return '<apply><%s/>%s</apply>' % (name, ''.join(go(c) for c in a[1:] if c is not None))
    return go(a)


NLA_BLOCK = '''  <component name="cnla">
    <variable name="nx" units="dimensionless" initial_value="1"/>
    <variable name="ny" units="dimensionless" initial_value="1"/>
    <variable name="na" units="dimensionless" initial_value="%s"/>
    <math xmlns="http://www.w3.org/1998/Math/MathML">
      <apply><eq/><apply><plus/><ci>nx</ci><apply><%s/><ci>ny</ci></apply></apply><ci>na</ci></apply>
      <apply><eq/><apply><minus/><ci>nx</ci><ci>ny</ci></apply><cn cellml:units="dimensionless">1</cn></apply>
    </math>
  </component>'''


def is_dynamic(qs, q, seen=None):
    """does the quantity depend, through its equation, on a state or on the variable of integration?"""
    seen = seen if seen is not None else set()
    if q.idx in seen:
        return False
    seen.add(q.idx)
    if q.kind in ('state', 'voi'):
        return True
    return q.rhs is not None and any(is_dynamic(qs, qs[k], seen) for k in leaves(q.rhs, set()))


class Reversed:
    """a `perm` for to_cellml that lists everything in reverse (every dependency comes after what needs it)"""
    def shuffle(self, l):
        l.reverse()

    def random(self):
        return 0.0


def to_cellml(sysd, rng, nla=False, perm=None, rename=None, implicit=0.0, nla_ext=0.0):
    """CellML text of the system.  The MathML of every equation is generated once and cached in `sysd`; `perm` (a
    random.Random) reorders components, variables, equations and connections without changing them; `rename` maps
    (component index, variable name) to a new name and 'c<i>' to a new component name."""
    qs = sysd['qs']
    if 'eqtext' not in sysd:
        sysd['eqtext'] = {}
        for c in range(sysd['ncomp']):
            for q in qs:
                if q.home == c and q.rhs is not None:
                    lhs = '<ci>%s</ci>' % q.members[c][0]
                    if q.kind == 'state':
                        lhs = '<apply><diff/><bvar><ci>%s</ci></bvar>%s</apply>' % (qs[0].members[c][0], lhs)
                    rhs = mathml(q.rhs, sysd, c, rng)
                    if (q.idx in sysd.get('force_implicit', ())) or (implicit and q.kind == 'alg' and is_dynamic(qs, q) and rng.random() < implicit):
                        # an implicit equation: the unknown is not alone on a side (q + 0 = rhs), so it takes an NLA system
                        lhs = '<apply><plus/>%s<cn cellml:units="dimensionless">0</cn></apply>' % lhs
                        sysd.setdefault('implicit', set()).add(q.idx)
                    sysd['eqtext'][q.idx] = '<apply><eq/>%s%s</apply>' % ((rhs, lhs) if rng.random() < 0.2 else (lhs, rhs))
        sysd['nla_block'] = None
        if nla:
            nvars = ['<variable name="nx" units="dimensionless" initial_value="1"/>', '<variable name="ny" units="dimensionless" initial_value="1"/>',
                     '<variable name="na" units="dimensionless" initial_value="%s"/>' % rng.choice(['3', '5', '2.5'])]
            neqs = ['<apply><eq/><apply><plus/><ci>nx</ci><apply><%s/><ci>ny</ci></apply></apply><ci>na</ci></apply>' % rng.choice(['sec', 'abs', 'csch', 'exp', 'arccot']),
                    '<apply><eq/><apply><minus/><ci>nx</ci><ci>ny</ci></apply><cn cellml:units="dimensionless">1</cn></apply>']
            if rng.random() < 0.6:
                # consumers of the NLA unknowns: a chain nz = f(nx), nw = g(nz), nu = h(nw, na)
                neqs += ['<apply><eq/><ci>nz</ci><apply><times/><cn cellml:units="dimensionless">2</cn><ci>nx</ci></apply></apply>',
                         '<apply><eq/><ci>nw</ci><apply><plus/><ci>nz</ci><cn cellml:units="dimensionless">1</cn></apply></apply>',
                         '<apply><eq/><apply><minus/><ci>nw</ci><ci>na</ci></apply><ci>nu</ci></apply>']
                nvars += ['<variable name="nz" units="dimensionless"/>', '<variable name="nw" units="dimensionless"/>', '<variable name="nu" units="dimensionless"/>']
            rng.shuffle(neqs)
            sysd['nla_block'] = (nvars, neqs)
            # the right-hand side `na` of the system may be computed in another component (`cnb`, reached through a
            # connection): an equation then reads a class whose other member carries another name once renamed
            sysd['nla_ext'] = bool(nla_ext) and rng.random() < nla_ext
            if sysd['nla_ext']:
                nvars[2] = '<variable name="na" units="dimensionless" interface="public"/>'
                # `na` must not stand alone on a side of the implicit equation: listed before `na = 3` it would be taken
                # for what the equation computes (known finding C05-order-initialised-unknown)
                neqs = [e.replace('<ci>na</ci></apply>', '<apply><plus/><ci>na</ci><cn cellml:units="dimensionless">0</cn></apply></apply>') if '<plus/><ci>nx</ci>' in e else e for e in neqs]
                sysd['nla_block'] = (nvars, neqs)
                sysd['nla_ext_value'] = rng.choice(['3', '5', '2.5'])
        sysd['eqorder'] = {c: [q.idx for q in qs if q.home == c and q.rhs is not None] for c in range(sysd['ncomp'])}
        # how the members of a quantity are connected: a star around the home component, or a chain that starts there; on a
        # chain the initial value may be declared at the far end (two or more connections away from the equation)
        sysd['chain'] = {}
        sysd['init_at'] = {}
        for q in qs:
            others = [c for c in q.members if c != q.home]
            if len(others) >= 2 and rng.random() < 0.7:
                rng.shuffle(others)
                sysd['chain'][q.idx] = [q.home] + others
                far = others[-1]
                if q.init is not None and q.init_from is None and scale(q.members[far][1]) == scale(q.members[q.home][1]) and rng.random() < 0.85:
                    sysd['init_at'][q.idx] = far
        for c in sysd['eqorder']:
            rng.shuffle(sysd['eqorder'][c])
    rn = rename or {}
    def vn(c, name):
        return rn.get((c, name), name)
    def cn_(c):
        return rn.get('c%d' % c, 'c%d' % c)
    out = ['<?xml version="1.0" encoding="UTF-8"?>', '<model xmlns="http://www.cellml.org/cellml/2.0#" xmlns:cellml="http://www.cellml.org/cellml/2.0#" name="m">']
    for n, (d, s_, x) in UNITS.items():
        if x:
            out.append('  ' + x)
    corder = list(range(sysd['ncomp']))
    if perm:
        perm.shuffle(corder)
    blocks = []
    for c in corder:
        blk = ['  <component name="%s">' % cn_(c)]
        vl = []
        for q in qs:
            if c in q.members:
                name, units = q.members[c]
                iv = ''
                if sysd.get('init_at', {}).get(q.idx, q.home) == c and q.init is not None:
                    iv = ' initial_value="%s"' % q.init
                if q.home == c and q.init_from is not None:
                    iv = ' initial_value="%s"' % vn(c, qs[q.init_from].members[c][0])
                vl.append('    <variable name="%s" units="%s" interface="public"%s/>' % (vn(c, name), units, iv))
        if perm:
            perm.shuffle(vl)
        blk += vl
        eo = list(sysd['eqorder'][c])
        if perm:
            perm.shuffle(eo)
        eqs = []
        for k in eo:
            t = sysd['eqtext'][k]
            if rn:
                t = re.sub(r'<ci>([^<]*)</ci>', lambda m: '<ci>%s</ci>' % vn(c, m.group(1)), t)
            eqs.append(t)
        if eqs:
            blk.append('    <math xmlns="http://www.w3.org/1998/Math/MathML">' + ''.join(eqs) + '</math>')
        blk.append('  </component>')
        blocks.append('\n'.join(blk))
    if sysd.get('nla_block'):
        nvars, neqs = list(sysd['nla_block'][0]), list(sysd['nla_block'][1])
        if perm:
            perm.shuffle(nvars); perm.shuffle(neqs)
        def nrn(comp, t):
            t = re.sub(r'name="(n[a-z])"', lambda m: 'name="%s"' % rn.get((comp, m.group(1)), m.group(1)), t)
            return re.sub(r'<ci>(n[a-z])</ci>', lambda m: '<ci>%s</ci>' % rn.get((comp, m.group(1)), m.group(1)), t)
        nvars = [nrn('cnla', t) for t in nvars]; neqs = [nrn('cnla', t) for t in neqs]
        blocks.append('  <component name="cnla">\n    ' + '\n    '.join(nvars) + '\n    <math xmlns="http://www.w3.org/1998/Math/MathML">\n      ' + '\n      '.join(neqs) + '\n    </math>\n  </component>')
        if sysd.get('nla_ext'):
            blocks.append(nrn('cnb', '  <component name="cnb">\n    <variable name="na" units="dimensionless" interface="public"/>\n    <math xmlns="http://www.w3.org/1998/Math/MathML">'
                                     '<apply><eq/><ci>na</ci><cn cellml:units="dimensionless">%s</cn></apply></math>\n  </component>' % sysd['nla_ext_value']))
        if perm:
            perm.shuffle(blocks)
    out += blocks
    pairs = {}
    for q in qs:
        ch = sysd.get('chain', {}).get(q.idx)
        links = list(zip(ch, ch[1:])) if ch else [(q.home, c) for c in q.members if c != q.home]
        for x_, y_ in links:
            a, b = min(x_, y_), max(x_, y_)
            pairs.setdefault((a, b), []).append((vn(a, q.members[a][0]), vn(b, q.members[b][0])))
    plist = sorted(pairs.items())
    if perm:
        perm.shuffle(plist)
    if sysd.get('nla_block') and sysd.get('nla_ext'):
        x, y = rn.get(('cnla', 'na'), 'na'), rn.get(('cnb', 'na'), 'na')
        conn = ('  <connection component_1="cnla" component_2="cnb">\n    <map_variables variable_1="%s" variable_2="%s"/>\n  </connection>' % (x, y)
                if not (perm and perm.random() < 0.5) else
                '  <connection component_1="cnb" component_2="cnla">\n    <map_variables variable_1="%s" variable_2="%s"/>\n  </connection>' % (y, x))
        nla_conn = conn
    else:
        nla_conn = None
    for (a, b), vs in plist:
        if perm:
            perm.shuffle(vs)
        if perm and perm.random() < 0.5:
            out.append('  <connection component_1="%s" component_2="%s">' % (cn_(b), cn_(a)))
            for x, y in vs:
                out.append('    <map_variables variable_1="%s" variable_2="%s"/>' % (y, x))
        else:
            out.append('  <connection component_1="%s" component_2="%s">' % (cn_(a), cn_(b)))
            for x, y in vs:
                out.append('    <map_variables variable_1="%s" variable_2="%s"/>' % (x, y))
        out.append('  </connection>')
    if nla_conn:
        out.append(nla_conn)
    out.append('</model>')
    return '\n'.join(out) + '\n'


class Fragile(Exception):
    pass


def ev(a, env):
    """reference value of an expression over quantity leaves; raises Fragile near discontinuities / domain edges"""
    t = a[0]
    if t == 'q':
        return env[a[1]]
    if t in ('EQ', 'NEQ', 'LT', 'LEQ', 'GT', 'GEQ'):
        l, r = ev(a[1], env), ev(a[2], env)
        if abs(l - r) < 1e-6 * max(1.0, abs(l), abs(r)):
            raise Fragile()
        return X.ev((t, ('cn', repr(l)), ('cn', repr(r))), {})
    if t in ('cn',):
        return float(a[1])
    sub = tuple(None if c is None else ('cn', repr(ev(c, env))) for c in a[1:]) if t not in ('PIECEWISE', 'ROOT', 'LOG') else None
    if sub is not None:
        try:
            v = X.ev((t,) + sub, {})
        except X.Undefined:
            raise Fragile()
        if isinstance(v, float) and (math.isnan(v) or math.isinf(v) or abs(v) > 1e12):
            raise Fragile()
        if t in ('FLOOR', 'CEILING', 'REM', 'MIN', 'MAX', 'AND', 'OR', 'XOR', 'NOT'):
            pass
        return v
    if t == 'PIECEWISE':
        p = a[1]
        c = ev(p[2], env)
        if c != 0.0:
            return ev(p[1], env)
        if a[2] is None:
            raise Fragile()      # NaN result: not compared
        if a[2][0] == 'PIECE':
            if ev(a[2][2], env) != 0.0:
                return ev(a[2][1], env)
            raise Fragile()
        if a[2][0] == 'OTHERWISE':
            return ev(a[2][1], env)
        return ev(a[2], env)
    if t == 'ROOT':
        if a[2] is None:
            x = ev(a[1], env)
            if x < 1e-9: raise Fragile()
            return math.sqrt(x)
        d, x = ev(a[1][1], env), ev(a[2], env)
        if x < 1e-9 or abs(d) < 1e-9: raise Fragile()
        return math.pow(x, 1.0 / d)
    if t == 'LOG':
        if a[2] is None:
            x = ev(a[1], env)
            if x < 1e-9: raise Fragile()
            return math.log10(x)
        b, x = ev(a[1][1], env), ev(a[2], env)
        if x < 1e-9 or b < 1e-9 or abs(b - 1.0) < 1e-6: raise Fragile()
        return math.log(x) / math.log(b)
    raise Fragile()


def ground_truth(sysd, t0=0.0):
    """fills base values and rates; raises Fragile when the system is numerically unsuitable"""
    try:
        return _ground_truth(sysd, t0)
    except (OverflowError, ValueError, ZeroDivisionError):
        raise Fragile()


def _ground_truth(sysd, t0=0.0):
    qs = sysd['qs']
    def local_env(q):
        c = q.home
        return {k: qs[k].base / scale(qs[k].members[c][1]) for k in leaves(q.rhs, set())}
    if sysd['ode']:
        qs[0].base = t0
    for q in qs:
        if q.kind == 'const' and q.init_from is None:
            q.base = float(q.init) * scale(q.members[q.home][1])
    for q in qs:
        if q.kind == 'const' and q.init_from is not None:
            p = qs[q.init_from]
            q.base = (p.base / scale(p.members[q.home][1])) * scale(q.members[q.home][1])
    for q in qs:
        if q.kind == 'state':
            if q.init_from is not None:
                p = qs[q.init_from]
                q.base = (p.base / scale(p.members[q.home][1])) * scale(q.members[q.home][1])
            else:
                q.base = float(q.init) * scale(q.members[q.home][1])
    for q in qs:
        if q.kind in ('cconst', 'alg'):
            q.base = ev(q.rhs, local_env(q)) * scale(q.members[q.home][1])
            if abs(q.base) > 1e12: raise Fragile()
    for q in qs:
        if q.kind == 'state':
            st = scale(qs[0].members[q.home][1])
            q.rate = ev(q.rhs, local_env(q)) * scale(q.members[q.home][1]) / st


def expected_value(sysd, comp, name):
    """(value, rate-or-None, quantity) of the CellML variable comp.name; rate w.r.t. the voi member reported"""
    ci = int(comp[1:])
    for q in sysd['qs']:
        m = q.members.get(ci)
        if m and m[0] == name:
            s = scale(m[1])
            return q.base / s, (None if q.rate is None else q.rate / s), q
    return None


C_MAIN = r'''
#include <stdio.h>
#include <stdlib.h>
#include "model.h"
int main(void)
{
    double *states = createStatesArray ? createStatesArray() : NULL;
    return 0;
}
'''


def run_generated_c(impl, iface, workdir, ode, t0=0.0):
    """compile the generated C and print every array entry with its info"""
    open(os.path.join(workdir, 'model.h'), 'w').write(iface)
    open(os.path.join(workdir, 'model.c'), 'w').write(impl)
    if ode:
        main = r'''
#include <stdio.h>
#include "model.h"
int main(void)
{
    double *states = createStatesArray(), *rates = createStatesArray(), *variables = createVariablesArray();
    for (size_t i = 0; i < STATE_COUNT; ++i) rates[i] = 0.0;
    initialiseVariables(states, rates, variables);
    computeComputedConstants(variables);
    computeRates(%r, states, rates, variables);
    computeVariables(%r, states, rates, variables);
    printf("VOI %%s %%s\n", VOI_INFO.component, VOI_INFO.name);
    for (size_t i = 0; i < STATE_COUNT; ++i) printf("S %%s %%s %%.17g %%.17g\n", STATE_INFO[i].component, STATE_INFO[i].name, states[i], rates[i]);
    for (size_t i = 0; i < VARIABLE_COUNT; ++i) printf("V %%s %%s %%.17g %%d\n", VARIABLE_INFO[i].component, VARIABLE_INFO[i].name, variables[i], (int)VARIABLE_INFO[i].type);
    return 0;
}
''' % (t0, t0)
    else:
        main = r'''
#include <stdio.h>
#include "model.h"
int main(void)
{
    double *variables = createVariablesArray();
    initialiseVariables(variables);
    computeComputedConstants(variables);
    computeVariables(variables);
    for (size_t i = 0; i < VARIABLE_COUNT; ++i) printf("V %s %s %.17g %d\n", VARIABLE_INFO[i].component, VARIABLE_INFO[i].name, variables[i], (int)VARIABLE_INFO[i].type);
    return 0;
}
'''
    open(os.path.join(workdir, 'main.c'), 'w').write(main)
    ex = os.path.join(workdir, 'a.out')
    r = subprocess.run(['gcc', '-std=c99', '-O0', '-w', os.path.join(workdir, 'model.c'), os.path.join(workdir, 'main.c'), '-I', workdir, '-o', ex, '-lm'],
                       capture_output=True, text=True)
    if r.returncode != 0:
        return None, 'compile: ' + r.stderr[:600]
    r = subprocess.run([ex], capture_output=True, text=True, timeout=20)
    if r.returncode != 0:
        return None, 'crash rc=%d' % r.returncode
    return r.stdout.split('\n'), None


def run_generated_py(impl, ode, t0=0.0):
    g = {}
    try:
        exec(compile(impl, '<generated>', 'exec'), g)
    except SyntaxError as e:
        return None, 'syntax: %s' % e
    out = []
    try:
        if ode:
            states = g['create_states_array'](); rates = g['create_states_array'](); variables = g['create_variables_array']()
            g['initialise_variables'](states, rates, variables)
            g['compute_computed_constants'](variables)
            g['compute_rates'](t0, states, rates, variables)
            g['compute_variables'](t0, states, rates, variables)
            out.append('VOI %s %s' % (g['VOI_INFO']['component'], g['VOI_INFO']['name']))
            for i, info in enumerate(g['STATE_INFO']):
                out.append('S %s %s %r %r' % (info['component'], info['name'], float(states[i]), float(rates[i])))
        else:
            variables = g['create_variables_array']()
            g['initialise_variables'](variables)
            g['compute_computed_constants'](variables)
            g['compute_variables'](variables)
        for i, info in enumerate(g['VARIABLE_INFO']):
            out.append('V %s %s %r %s' % (info['component'], info['name'], float(variables[i]), info['type']))
    except (ValueError, ZeroDivisionError, OverflowError) as e:
        return None, 'domain: %s' % e
    except Exception as e:
        return None, 'error: %s: %s' % (type(e).__name__, e)
    return out, None
