"""Import worlds (C07, C06): a set of files in one directory, each missing, not XML, foreign XML or a CellML 2.0 model with
units (local with child references, or imported) and components (local with encapsulated children and used units, or
imported).  `render` writes the CellML text of a file, `wire` the S-expression read by the Lean engine `world`,
`resolvable` is an independent least-fixpoint oracle, `classify` tells whether the file graph has a cycle that no entity
closes (the family the property excludes)."""
import itertools

STD = 'second'


def U(name, imp=None, kids=()):
    return {'name': name, 'imp': imp, 'kids': list(kids)}


def C(name, imp=None, kids=(), units=()):
    return {'name': name, 'imp': imp, 'kids': list(kids), 'units': list(units)}


def model(units=(), comps=()):
    return {'kind': 'model', 'units': list(units), 'comps': list(comps)}


MISSING = {'kind': 'missing'}
NOTXML = {'kind': 'notxml'}
FOREIGN = {'kind': 'foreign'}


def all_comps(f):
    out = []
    def go(c):
        out.append(c)
        for k in c['kids']:
            go(k)
    for c in f.get('comps', []):
        go(c)
    return out


def render(fname, f, cut=None):
    """CellML text of a file (None for a missing one)"""
    if f['kind'] == 'missing':
        return None
    if f['kind'] == 'notxml':
        return '<?xml version="1.0"?>\n<model xmlns="http://www.cellml.org/cellml/2.0#" name="broken"><units name="a">'
    if f['kind'] == 'foreign':
        return '<?xml version="1.0"?>\n<svg xmlns="http://www.w3.org/2000/svg"><g id="%s"/></svg>\n' % fname.replace('.', '_')
    o = ['<?xml version="1.0" encoding="UTF-8"?>', '<model xmlns="http://www.cellml.org/cellml/2.0#" xmlns:cellml="http://www.cellml.org/cellml/2.0#" name="m_%s">' % fname.replace('.', '_')]
    for u in f['units']:
        if u['imp']:
            o.append('  <import xmlns:xlink="http://www.w3.org/1999/xlink" xlink:href="%s"><units units_ref="%s" name="%s"/></import>' % (u['imp'][0], u['imp'][1], u['name']))
    for c in all_comps(f):
        if c['imp']:
            o.append('  <import xmlns:xlink="http://www.w3.org/1999/xlink" xlink:href="%s"><component component_ref="%s" name="%s"/></import>' % (c['imp'][0], c['imp'][1], c['name']))
    for u in f['units']:
        if not u['imp']:
            if u['kids']:
                o.append('  <units name="%s">' % u['name'])
                for i, k in enumerate(u['kids']):
                    o.append('    <unit units="%s"%s/>' % (k, ' exponent="2"' if i else ''))
                o.append('  </units>')
            else:
                o.append('  <units name="%s"><unit units="%s" prefix="milli"/></units>' % (u['name'], STD))
    for c in all_comps(f):
        if not c['imp']:
            o.append('  <component name="%s">' % c['name'])
            for i, un in enumerate(c['units']):
                o.append('    <variable name="v%d" units="%s" initial_value="%d"/>' % (i, un, i + 1))
            o.append('  </component>')
    enc = []
    def ref(c, ind):
        if c['kids']:
            enc.append('%s<component_ref component="%s">' % (ind, c['name']))
            for k in c['kids']:
                ref(k, ind + '  ')
            enc.append('%s</component_ref>' % ind)
        else:
            enc.append('%s<component_ref component="%s"/>' % (ind, c['name']))
    for c in f['comps']:
        if c['kids']:
            ref(c, '    ')
    if enc:
        o += ['  <encapsulation>'] + enc + ['  </encapsulation>']
    o.append('</model>')
    text = '\n'.join(o) + '\n'
    if cut is not None:
        text = text[:int(len(text) * cut)]
    return text


def wire(world, origin):
    def imp(e):
        return '(imp %s %s)' % (e['imp'][0], e['imp'][1]) if e['imp'] else '_'
    def comp(c):
        return '(c %s %s (kids %s) (units %s))' % (c['name'], imp(c), ' '.join(comp(k) for k in c['kids']), ' '.join(x for x in c['units'] if x != STD))
    fs = []
    for n, f in world.items():
        if f['kind'] == 'model':
            fs.append('(file %s (model (units %s) (comps %s)))' % (n, ' '.join('(u %s %s (kids %s))' % (u['name'], imp(u), ' '.join(x for x in u['kids'] if x != STD)) for u in f['units']),
                                                                 ' '.join(comp(c) for c in f['comps'])))
        elif f['kind'] == 'foreign':
            fs.append('(file %s (model (units) (comps)))' % n)
        else:
            fs.append('(file %s %s)' % (n, f['kind']))
    return '(world %s %s)' % (origin, ' '.join(fs))


# ---------------------------------------------------------------------------------------------
# independent oracle: least fixpoint of "this entity can be satisfied"

def find_comp(f, name):
    for c in all_comps(f):
        if c['name'] == name:
            return c
    return None


def find_units(f, name):
    for u in f['units']:
        if u['name'] == name:
            return u
    return None


def edges(world, fname, kind, e, dangling_ok, origin=None):
    """[(is_import_edge, (file, kind, name))] or None when a target does not exist; the units that a component of the
    origin itself uses are the origin's own business (resolution only looks at what is imported)"""
    f = world[fname]
    if e['imp']:
        url, ref = e['imp']
        g = world.get(url)
        if g is None or g['kind'] != 'model':
            return None
        t = find_units(g, ref) if kind == 'u' else find_comp(g, ref)
        if t is None:
            return None
        # an imported component may encapsulate components of its own
        return [(True, (url, kind, ref))] + ([(False, (fname, 'c', k['name'])) for k in e['kids']] if kind == 'c' else [])
    out = []
    refs = [('u', k) for k in e['kids']] if kind == 'u' else [('c', k['name']) for k in e['kids']] + ([] if fname == origin else [('u', un) for un in e['units']])
    for kd, k in refs:
        if k == STD:
            continue
        if kd == 'u' and find_units(f, k) is None:
            if dangling_ok:
                continue
            return None
        out.append((False, (fname, kd, k)))
    return out


def entity(world, key):
    f = world[key[0]]
    return find_units(f, key[2]) if key[1] == 'u' else find_comp(f, key[2])


def resolvable(world, origin, dangling_ok=False):
    """every import reachable from the origin's imports exists and no dependency cycle passes through an import (cycles made
    of local references only are a validation matter, not an import one)"""
    f = world[origin]
    roots = [(origin, 'u', u['name']) for u in f['units'] if u['imp']] + [(origin, 'c', c['name']) for c in all_comps(f) if c['imp']]
    graph = {}
    stack = list(roots)
    while stack:
        k = stack.pop()
        if k in graph:
            continue
        es = edges(world, k[0], k[1], entity(world, k), dangling_ok and k[0] != origin, origin)
        if es is None:
            return False
        graph[k] = es
        stack += [t for _, t in es]
    # a cycle through an import edge: an import edge a -> b with a reachable from b
    def reach(src):
        seen, st = set(), [src]
        while st:
            x = st.pop()
            for _, t in graph[x]:
                if t not in seen:
                    seen.add(t); st.append(t)
        return seen
    for a, es in graph.items():
        for imp, b in es:
            if imp and (a == b or a in reach(b)):
                return False
    return True


def entity_cycle(world, origin):
    """is there a dependency cycle through an import among the entities reachable from the origin (nothing missing on the way)?"""
    f = world[origin]
    roots = [(origin, 'u', u['name']) for u in f['units'] if u['imp']] + [(origin, 'c', c['name']) for c in all_comps(f) if c['imp']]
    graph, stack = {}, list(roots)
    while stack:
        k = stack.pop()
        if k in graph:
            continue
        graph[k] = edges(world, k[0], k[1], entity(world, k), True, origin) or []
        stack += [t for _, t in graph[k]]
    def reach(src):
        seen, st = set(), [src]
        while st:
            x = st.pop()
            for _, t in graph[x]:
                if t not in seen:
                    seen.add(t); st.append(t)
        return seen
    return any(imp and (a == b or a in reach(b)) for a, es in graph.items() for imp, b in es)


def requires_imports(c):
    return bool(c['imp']) or any(requires_imports(k) for k in c['kids'])


def file_edges(world):
    e = {}
    for n, f in world.items():
        if f['kind'] != 'model':
            continue
        for x in f['units'] + all_comps(f):
            if x['imp']:
                e.setdefault(n, set()).add(x['imp'][0])
    return e


def file_cycle(world, start):
    """is a file cycle reachable from `start` through imports?"""
    e = file_edges(world)
    seen, stack = set(), []
    def go(n):
        if n in stack:
            return True
        if n in seen:
            return False
        seen.add(n); stack.append(n)
        r = any(go(m) for m in e.get(n, ()))
        stack.pop()
        return r
    return go(start)


def unvisited_imports(world, origin):
    """imports that are reachable from the origin's imports but lie below a units that is not imported, where the
    importer does not look (known finding C07-imports-below-local-units): the traversal of fetchUnits / fetchComponent is
    mirrored (an import is visited when the importer fetches it) and compared with plain reachability"""
    visited = set()
    def model_of(url):
        g = world.get(url)
        return g if g is not None and g['kind'] == 'model' else None
    def visit_u(f, u, depth=0):
        if not u['imp'] or (f, 'u', u['name']) in visited or depth > 50:
            return
        visited.add((f, 'u', u['name']))
        g = model_of(u['imp'][0])
        if g is None:
            return
        su = find_units(g, u['imp'][1])
        if su is None:
            return
        visit_u(u['imp'][0], su, depth + 1)
        for k in su['kids']:
            ku = find_units(g, k)
            if ku is not None and ku['imp']:
                visit_u(u['imp'][0], ku, depth + 1)
    def sub_units(c, root=True):
        out = list(c['units']) if (root or not c['imp']) else []
        if root or not c['imp']:
            for k in c['kids']:
                out += sub_units(k, False)
        return out
    def visit_c(f, c, depth=0):
        if depth > 50 or not requires_imports(c):
            return
        if not c['imp']:
            for k in c['kids']:
                visit_c(f, k, depth + 1)
            return
        if (f, 'c', c['name']) in visited:
            return
        visited.add((f, 'c', c['name']))
        g = model_of(c['imp'][0])
        if g is None:
            return
        sc = find_comp(g, c['imp'][1])
        if sc is None:
            return
        visit_c(c['imp'][0], sc, depth + 1)
        for k in sc['kids']:
            visit_c(c['imp'][0], k, depth + 1)
        for un in sub_units(sc):
            uu = find_units(g, un)
            if uu is not None:
                visit_u(c['imp'][0], uu, depth + 1)
    f0 = world[origin]
    for u in f0['units']:
        visit_u(origin, u)
    for c in all_comps(f0):
        if c['imp']:
            visit_c(origin, c)
    # plain reachability
    roots = [(origin, 'u', u['name']) for u in f0['units'] if u['imp']] + [(origin, 'c', c['name']) for c in all_comps(f0) if c['imp']]
    seen, stack = set(), list(roots)
    while stack:
        k = stack.pop()
        if k in seen:
            continue
        seen.add(k)
        e = entity(world, k)
        es = edges(world, k[0], k[1], e, True, origin)
        for _, t in (es or []):
            stack.append(t)
    return sorted(k for k in seen if entity(world, k)['imp'] and k not in visited)


# ---------------------------------------------------------------------------------------------
# generation

def small_units_worlds(nfiles, nunits):
    """every world of `nfiles` files with `nunits` units each: leaf, child of another units of the file, or import (file, name)"""
    files = ['f%d.cellml' % i for i in range(nfiles)]
    names = ['u%d' % j for j in range(nunits)]
    opts = [('leaf',)] + [('kid', m) for m in names] + [('imp', g, m) for g in files for m in names]
    slots = [(f, n) for f in files for n in names]
    for combo in itertools.product(opts, repeat=len(slots)):
        w = {f: model() for f in files}
        ok = True
        for (f, n), o in zip(slots, combo):
            if o[0] == 'leaf':
                w[f]['units'].append(U(n))
            elif o[0] == 'kid':
                w[f]['units'].append(U(n, kids=[o[1]]))
            else:
                w[f]['units'].append(U(n, imp=(o[1], o[2])))
        yield w


def small_comp_worlds(nfiles, ncomps):
    files = ['f%d.cellml' % i for i in range(nfiles)]
    names = ['c%d' % j for j in range(ncomps)]
    opts = [('leaf',)] + [('imp', g, m) for g in files for m in names]
    slots = [(f, n) for f in files for n in names]
    for combo in itertools.product(opts, repeat=len(slots)):
        w = {f: model() for f in files}
        for (f, n), o in zip(slots, combo):
            w[f]['comps'].append(C(n) if o[0] == 'leaf' else C(n, imp=(o[1], o[2])))
        yield w


def diamond_worlds():
    """depth-three worlds with a shared file: A imports a component (or a units) from B that uses two units of B, each a leaf
    or an import from C; the two units of C are leaves, imports from D or refer to each other"""
    bshapes = [None, ('f2.cellml', 'u0'), ('f2.cellml', 'u1')]
    c0 = [U('u0'), U('u0', imp=('f3.cellml', 'u0')), U('u0', kids=['u1'])]
    c1 = [U('u1'), U('u1', imp=('f3.cellml', 'u0')), U('u1', imp=('f3.cellml', 'u1'))]
    for s1, s2, a, b, top in itertools.product(bshapes, bshapes, c0, c1, ('comp', 'units')):
        fb_units = [U('ub0', imp=s1), U('ub1', imp=s2)]
        if top == 'comp':
            fa = model([], [C('x', imp=('f1.cellml', 'x'))])
            fb = model(fb_units, [C('x', units=['ub0', 'ub1'])])
        else:
            fa = model([U('x', imp=('f1.cellml', 'x'))])
            fb = model(fb_units + [U('x', kids=['ub0', 'ub1'])])
        import copy
        yield {'f0.cellml': fa, 'f1.cellml': fb, 'f2.cellml': model([copy.deepcopy(a), copy.deepcopy(b)]), 'f3.cellml': model([U('u0'), U('u1')])}


def relay_worlds():
    """A imports a component from B which is itself an import (from C) that encapsulates components of B: their units
    (leaf, import from D, import of something D lacks, missing in B), their own imports (from C, from D, back from B) and
    the shape of what C offers vary"""
    import copy
    ku = [('leaf', U('u')), ('imp', U('u', imp=('f3.cellml', 'u0'))), ('impmissing', U('u', imp=('f3.cellml', 'u7'))), ('absent', None), ('impfile', U('u', imp=('f9.cellml', 'u0')))]
    kid_kinds = [('plain', None), ('imp-c', ('f2.cellml', 'c1')), ('imp-d', ('f3.cellml', 'c0')), ('imp-back', ('f1.cellml', 'b')), ('imp-none', ('f3.cellml', 'c7'))]
    cshapes = [[C('c0'), C('c1')], [C('c0', kids=[C('cc', units=['u0'])]), C('c1')], [C('c0', imp=('f3.cellml', 'c0')), C('c1')]]
    for (un, u), (kn, kimp), cs, two in itertools.product(ku, kid_kinds, cshapes, (False, True)):
        kids = [C('k', units=['u', 'second'])] if kimp is None else [C('k', imp=kimp)]
        if two:
            kids.append(C('k2', kids=[C('k3', units=['u'])]))
        fb = model([copy.deepcopy(u)] if u else [], [C('b', imp=('f2.cellml', 'c0'), kids=kids), C('other')])
        yield {'f0.cellml': model([], [C('a', imp=('f1.cellml', 'b'))]), 'f1.cellml': fb,
               'f2.cellml': model([U('u0')], copy.deepcopy(cs)), 'f3.cellml': model([U('u0')], [C('c0', units=['u0'])])}


def rho_worlds():
    """cycles of local unit references that are entered from outside (the units the walk starts from is not on the cycle):
    A imports a component (or a units) of B that uses units t0 -> … -> t(tail-1) -> k0 -> … -> k(n-1) -> k0; a second
    branch into the cycle and an import hanging off the tail vary"""
    for tail, n, top, second, hang in itertools.product((0, 1, 2), (1, 2, 3), ('comp', 'units'), (False, True), (False, True)):
        names = ['t%d' % i for i in range(tail)] + ['k%d' % i for i in range(n)]
        us = []
        for i, nm in enumerate(names):
            nxt = names[i + 1] if i + 1 < len(names) else 'k0'
            kids = [nxt] + (['k%d' % (n - 1)] if second and i == 0 else []) + ([STD] if i % 2 else [])
            us.append(U(nm, kids=kids))
        if hang:
            us.append(U('h', imp=('f2.cellml', 'u0')))
        first = names[0]
        if top == 'comp':
            fa = model([], [C('x', imp=('f1.cellml', 'x'))])
            fb = model(us, [C('x', units=[first] + (['h'] if hang else []))])
        else:
            fa = model([U('x', imp=('f1.cellml', 'x'))])
            fb = model(us + [U('x', kids=[first] + (['h'] if hang else []))])
        yield {'f0.cellml': fa, 'f1.cellml': fb, 'f2.cellml': model([U('u0')])}


def random_world(rng, nfiles=None, cyclic=0.15):
    nfiles = nfiles or rng.randint(2, 5)
    files = ['f%d.cellml' % i for i in range(nfiles)]
    w = {}
    for i, f in enumerate(files):
        lower = files[i + 1:]
        def target(kind, prefix):
            if rng.random() < cyclic or not lower:
                g = rng.choice(files)
            else:
                g = rng.choice(lower)
            return (g, '%s%d' % (prefix, rng.randrange(3)))
        us = []
        for j in range(rng.randint(0, 3)):
            r = rng.random()
            n = 'u%d' % j
            if r < 0.4:
                us.append(U(n, imp=target('u', 'u')))
            elif r < 0.7 and j > 0:
                us.append(U(n, kids=[rng.choice(['u%d' % k for k in range(j)] + [STD])] + ([STD] if rng.random() < 0.3 else [])))
            elif r < 0.75:
                us.append(U(n, kids=['u%d' % rng.randrange(3)]))       # possibly itself or a later / missing one
            else:
                us.append(U(n))
        unames = [u['name'] for u in us]
        cnt = [0]
        def comp(depth):
            n = 'c%d' % cnt[0]; cnt[0] += 1
            if rng.random() < 0.45:
                own = [comp(depth + 1) for _ in range(rng.randint(1, 2))] if depth < 2 and rng.random() < 0.3 else []
                return C(n, imp=target('c', 'c'), kids=own)
            kids = [comp(depth + 1) for _ in range(rng.randint(0, 2))] if depth < 2 and rng.random() < 0.5 else []
            units = [rng.choice(unames + [STD]) for _ in range(rng.randint(0, 2))] if rng.random() < 0.8 else []
            if rng.random() < 0.04:
                units.append('u9')      # a dangling units reference
            return C(n, kids=kids, units=units)
        cs = []
        while cnt[0] < 3 and (not cs or rng.random() < 0.6):
            cs.append(comp(0))
        w[f] = model(us, cs)
    return w


FAULTS = ['missing', 'notxml', 'foreign', 'drop-entity', 'truncate']


def apply_fault(world, rng, origin):
    """one fault in a non-origin file; returns (world', description) or None"""
    import copy
    w = copy.deepcopy(world)
    victims = [n for n in w if n != origin and w[n]['kind'] == 'model']
    if not victims:
        return None
    v = rng.choice(victims)
    k = rng.choice(FAULTS)
    if k == 'missing':
        w[v] = dict(MISSING)
    elif k in ('notxml', 'truncate'):
        w[v] = dict(NOTXML, cut=rng.choice([0.1, 0.5, 0.9]) if k == 'truncate' else None, was=world[v])
    elif k == 'foreign':
        w[v] = dict(FOREIGN)
    else:
        f = w[v]
        pool = [('u', u) for u in f['units']] + [('c', c) for c in f['comps']]
        if not pool:
            return None
        kind, e = rng.choice(pool)
        (f['units'] if kind == 'u' else f['comps']).remove(e)
        k += ':%s' % e['name']
    return w, '%s in %s' % (k, v)
