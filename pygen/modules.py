"""C06: a family of import worlds with known values — a library 'module' (a component with encapsulated children, one or two
levels deep, internal sibling and parent-child connections, units of its own) instantiated one to three times by an
importing model, with optional name clashes (components, units) and units that only a cn element uses.

  main.a_i (volt, constant)  ~ m_i.a_in ~ [mid.a ~] leafA.a (mV)      leafA.src = K * a          (mV)
  leafA.src (mV) ~ leafB.src (volt)                                   leafB.v   = src + C        (volt)
  leafB.v ~ [mid.v (mV) ~] m_i.y (volt) ~ main.y_i                    main.total = sum y_i
so y_i = K * A_i + C."""

HEAD = '<?xml version="1.0" encoding="UTF-8"?>\n<model xmlns="http://www.cellml.org/cellml/2.0#" xmlns:cellml="http://www.cellml.org/cellml/2.0#" name="%s">\n'
MML = 'http://www.w3.org/1998/Math/MathML'


def gen(rng):
    n = rng.randint(1, 3)
    depth = rng.choice([1, 2, 2])
    K = rng.choice([2, 3, 0.5, -1.5])
    Cc = rng.choice([1, 0.25, -2])
    A = rng.sample([1, 2, 3.5, -1, 0.5, 7], n)
    mv = rng.choice(['mV', 'mV', 'ms', 'LmV'])       # the library's name for its millivolt; 'ms' clashes with the importer's millisecond
    cn_units = rng.choice(['volt', 'cu'])              # units of the constant C: 'cu' is used by that cn element only
    clash_comp = rng.choice([None, 'mid', 'leafA', 'leafB', 'm1'])
    units_from = rng.choice(['local', 'local', 'imported'])
    nown = rng.choice([0, 0, 1, 2, 3])                 # components of the importing model encapsulated in the first instance
    # a second name of the library for its millivolt (alias = 1 mV), used by leafA.src: two equivalent units of different names,
    # of which flattening keeps one; the alias may be called like the importer's millisecond
    alias = None
    if rng.random() < 0.4:
        alias = 'ms' if (mv != 'ms' and rng.random() < 0.6) else 'alias_mv'
    # library
    lib = HEAD % 'modlib'
    if units_from == 'imported':
        lib += '  <import xmlns:xlink="http://www.w3.org/1999/xlink" xlink:href="units.cellml"><units units_ref="millivolt" name="%s"/></import>\n' % mv
    else:
        lib += '  <units name="%s"><unit units="volt" prefix="milli"/></units>\n' % mv
    cu_compound = cn_units == 'cu' and rng.random() < 0.5
    if cn_units == 'cu':
        if cu_compound:
            # volt per second spelt with two units of the library, both of which the importing model may define differently (not equivalent
            # to either of them, or flattening would merge them)
            lib += '  <units name="cu"><unit units="cA"/><unit units="cB"/></units>\n  <units name="cA"><unit units="volt"/></units>\n  <units name="cB"><unit units="second" exponent="-1"/></units>\n'
        else:
            lib += '  <units name="cu"><unit units="volt"/></units>\n'
    if alias:
        lib += '  <units name="%s"><unit units="%s"/></units>\n' % (alias, mv)
    mid = depth == 2
    lib += ('  <component name="outer">\n    <variable name="a_in" units="volt" interface="public_and_private"/>\n'
            '    <variable name="y" units="volt" interface="public_and_private"/>\n  </component>\n')
    if mid:
        lib += ('  <component name="mid">\n    <variable name="a" units="%s" interface="public_and_private"/>\n'
                '    <variable name="v" units="%s" interface="public_and_private"/>\n  </component>\n') % (mv, mv)
    lib += ('  <component name="leafA">\n    <variable name="a" units="%s" interface="public"/>\n    <variable name="src" units="%s" interface="public"/>\n'
            '    <math xmlns="%s"><apply><eq/><ci>src</ci><apply><times/><cn cellml:units="dimensionless">%s</cn><ci>a</ci></apply></apply></math>\n  </component>\n') % (mv, alias or mv, MML, K)
    lib += ('  <component name="leafB">\n' + ('    <variable name="pa" units="cA" initial_value="1"/>\n    <variable name="pb" units="cB" initial_value="1"/>\n' if cu_compound else '') +
            '    <variable name="src" units="volt" interface="public"/>\n    <variable name="v" units="volt" interface="public"/>\n'
            '    <math xmlns="%s"><apply><eq/><ci>v</ci><apply><plus/><ci>src</ci><cn cellml:units="%s">%s</cn></apply></apply></math>\n  </component>\n') % (MML, cn_units, Cc)
    par = 'mid' if mid else 'outer'
    pa, pv = ('a', 'v') if mid else ('a_in', 'y')
    if mid:
        lib += '  <connection component_1="outer" component_2="mid"><map_variables variable_1="a_in" variable_2="a"/><map_variables variable_1="y" variable_2="v"/></connection>\n'
    lib += '  <connection component_1="%s" component_2="leafA"><map_variables variable_1="%s" variable_2="a"/></connection>\n' % (par, pa)
    lib += '  <connection component_1="%s" component_2="leafB"><map_variables variable_1="%s" variable_2="v"/></connection>\n' % (par, pv)
    lib += '  <connection component_1="leafA" component_2="leafB"><map_variables variable_1="src" variable_2="src"/></connection>\n'
    if mid:
        lib += '  <encapsulation><component_ref component="outer"><component_ref component="mid"><component_ref component="leafA"/><component_ref component="leafB"/></component_ref></component_ref></encapsulation>\n'
    else:
        lib += '  <encapsulation><component_ref component="outer"><component_ref component="leafA"/><component_ref component="leafB"/></component_ref></encapsulation>\n'
    lib += '</model>\n'
    files = {'modlib.cellml': lib}
    if units_from == 'imported':
        files['units.cellml'] = HEAD % 'unitslib' + '  <units name="millivolt"><unit units="volt" prefix="milli"/></units>\n</model>\n'
    # importing model
    o = HEAD % 'main_model'
    inst = ['m%d' % (i + 1) for i in range(n)]
    if rng.random() < 0.5:
        o += '  <import xmlns:xlink="http://www.w3.org/1999/xlink" xlink:href="modlib.cellml">%s</import>\n' % ''.join('<component component_ref="outer" name="%s"/>' % m for m in inst)
    else:
        for m in inst:
            o += '  <import xmlns:xlink="http://www.w3.org/1999/xlink" xlink:href="modlib.cellml"><component component_ref="outer" name="%s"/></import>\n' % m
    o += '  <units name="ms"><unit units="second" prefix="milli"/></units>\n'
    # the importing model may have units of its own under the name of the units that only a cn element of the library uses
    # (in a grandchild of the imported component when the module is two levels deep): the library's have to be renamed
    cu_clash = cn_units == 'cu' and rng.random() < 0.6
    if cu_clash:
        o += '  <units name="cu"><unit units="second" prefix="kilo"/></units>\n'
    if cu_compound and rng.random() < 0.7:
        o += '  <units name="cA"><unit units="second" prefix="kilo"/></units>\n  <units name="cB"><unit units="metre"/></units>\n'
    o += '  <component name="main">\n'
    for i, m in enumerate(inst):
        o += '    <variable name="a%d" units="volt" interface="public" initial_value="%s"/>\n    <variable name="y%d" units="volt" interface="public"/>\n' % (i + 1, A[i], i + 1)
    o += '    <variable name="total" units="volt" interface="public"/>\n    <variable name="tau" units="ms" interface="public" initial_value="5"/>\n'
    if cu_clash:
        o += '    <variable name="kk" units="cu" interface="public" initial_value="3"/>\n'
    total = ''.join('<ci>y%d</ci>' % (i + 1) for i in range(n))
    o += '    <math xmlns="%s"><apply><eq/><ci>total</ci><apply><plus/>%s</apply></apply></math>\n  </component>\n' % (MML, total)
    clash_name = None
    if clash_comp:
        clash_name = clash_comp if clash_comp != 'm1' else None
        if clash_name:
            o += '  <component name="%s">\n    <variable name="zz" units="ms" interface="public" initial_value="9"/>\n  </component>\n' % clash_name
    for j in range(nown):
        o += '  <component name="own%d">\n    <variable name="zz" units="ms" interface="public" initial_value="%d"/>\n  </component>\n' % (j, 20 + j)
    for i, m in enumerate(inst):
        o += '  <connection component_1="main" component_2="%s"><map_variables variable_1="a%d" variable_2="a_in"/><map_variables variable_1="y%d" variable_2="y"/></connection>\n' % (m, i + 1, i + 1)
    if nown:
        o += '  <encapsulation><component_ref component="m1">%s</component_ref></encapsulation>\n' % ''.join('<component_ref component="own%d"/>' % j for j in range(nown))
    o += '</model>\n'
    files['origin.cellml'] = o
    y = [K * a + Cc for a in A]
    expect = {'main': {'total': sum(y), 'tau': 5.0}}
    if cu_clash:
        expect['main']['kk'] = 3.0
    for i in range(n):
        expect['main']['a%d' % (i + 1)] = A[i]; expect['main']['y%d' % (i + 1)] = y[i]
    multi = {'outer.a_in': sorted(A), 'outer.y': sorted(y),
             'leafA.src': sorted(K * 1000 * a for a in A), 'leafA.a': sorted(1000 * a for a in A),
             'leafB.src': sorted(K * a for a in A), 'leafB.v': sorted(y)}
    if cu_compound:
        multi['leafB.pa'] = [1.0] * n; multi['leafB.pb'] = [1.0] * n
    if mid:
        multi['mid.a'] = sorted(1000 * a for a in A); multi['mid.v'] = sorted(1000 * v for v in y)
    ncomp = 1 + n * (3 + (1 if mid else 0)) + (1 if clash_name else 0) + nown
    for j in range(nown):
        multi['own%d.zz' % j] = [20.0 + j]
    return dict(files=files, origin='origin.cellml', n=n, depth=depth, expect=expect, multi=multi, ncomp=ncomp,
                nown=nown,
                opts=dict(mv=mv, alias=alias, cu_clash=cu_clash, cu_compound=cu_compound, cn_units=cn_units, clash_comp=clash_comp, units_from=units_from, K=K, C=Cc, A=A, nown=nown))
