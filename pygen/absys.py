"""Abstract system of a CellML 2.0 document as the analyser sees it (C05 / C20): equivalence classes in the order the
analyser creates its internal variables, their initial type, the component of their representative; equations in
document order with the classes they mention (outside / inside diff) and what stands alone on either side.

Limits: components are taken in document order (flat models or models whose document order is the hierarchy order);
MathML in the default namespace of its <math> element."""
import re
import xml.etree.ElementTree as ET

NS = '{http://www.cellml.org/cellml/2.0#}'
MM = '{http://www.w3.org/1998/Math/MathML}'


def local(tag):
    return tag.split('}')[-1]


def parse(text, externals=()):
    root = ET.fromstring(text)
    comps = [c for c in root.iter(NS + 'component')]
    cname = [c.get('name') for c in comps]
    # union-find over (comp index, variable name)
    parent = {}
    def find(x):
        while parent.setdefault(x, x) != x:
            parent[x] = parent[parent[x]]; x = parent[x]
        return x
    for ci, c in enumerate(comps):
        for v in c.findall(NS + 'variable'):
            find((ci, v.get('name')))
    for con in root.findall(NS + 'connection'):
        a, b = cname.index(con.get('component_1')), cname.index(con.get('component_2'))
        for m in con.findall(NS + 'map_variables'):
            parent[find((a, m.get('variable_1')))] = find((b, m.get('variable_2')))
    init = {}
    for ci, c in enumerate(comps):
        for v in c.findall(NS + 'variable'):
            if v.get('initial_value') is not None:
                init[(ci, v.get('name'))] = v.get('initial_value')
    classes = []          # class id -> dict
    cid = {}              # root -> class id
    def cls(ci, name):
        r = find((ci, name))
        if r not in cid:
            cid[r] = len(classes)
            classes.append({'rep': (ci, name), 'members': [], 'voi': False, 'ode': False, 'init': (ci, name) in init})
        k = cid[r]
        d = classes[k]
        if (ci, name) not in d['members']:
            d['members'].append((ci, name))
        return k
    def see_declared(ci, name):
        k = cls(ci, name)
        d = classes[k]
        if (ci, name) in init and d['rep'] not in init:
            d['rep'] = (ci, name); d['init'] = True
    eqs = []
    for ci, c in enumerate(comps):
        for math in c.findall(MM + 'math'):
            for node in list(math):
                e = {'comp': ci, 'vars': [], 'odes': [], 'all': [], 'lhs': None, 'rhs': None, 'text': ET.tostring(node, encoding='unicode')[:200]}
                def walk(n, par, under_bvar):
                    t = local(n.tag)
                    if t == 'ci':
                        k = cls(ci, (n.text or '').strip())
                        if par is not None and len(par) and local(par[0].tag) == 'diff':
                            if k not in e['odes']: e['odes'].append(k); e['all'].append(k)
                            classes[k]['ode'] = True
                        elif under_bvar:
                            classes[k]['voi'] = True
                        else:
                            if k not in e['vars']: e['vars'].append(k); e['all'].append(k)
                        return
                    kids = list(n)
                    # analyseNode's traversal: first operand(s), then the last child, then the middle ones from the end
                    if t == 'piecewise' and len(kids) >= 2:
                        order = [kids[0], kids[-1]] + kids[-2:0:-1]
                    elif t == 'apply' and len(kids) >= 4:
                        order = [kids[0], kids[1], kids[-1]] + kids[-2:1:-1]
                    else:
                        order = kids
                    for ch in order:
                        walk(ch, n, t == 'bvar')
                walk(node, None, False)
                kids = list(node)
                def side(n):
                    t = local(n.tag)
                    if t == 'ci':
                        return ('ci', cls(ci, (n.text or '').strip()))
                    if t == 'apply' and len(n) and local(n[0].tag) == 'diff':
                        cis = [x for x in list(n) if local(x.tag) == 'ci']
                        if cis:
                            return ('diff', cls(ci, (cis[0].text or '').strip()))
                    return None
                if len(kids) == 3 and local(kids[0].tag) == 'eq':
                    e['lhs'], e['rhs'] = side(kids[1]), side(kids[2])
                eqs.append(e)
        for v in c.findall(NS + 'variable'):
            see_declared(ci, v.get('name'))
    ext = set()
    for i in range(0, len(externals), 2):
        ci = cname.index(externals[i]) if externals[i] in cname else None
        if ci is not None and (ci, externals[i + 1]) in parent:
            ext.add(cid[find((ci, externals[i + 1]))])
    return {'classes': classes, 'eqs': eqs, 'cname': cname, 'ext': ext}


def initial_type(d):
    if d['voi']:
        return 'voi'
    if d['ode']:
        return 'state' if d['init'] else 'shouldBeState'
    return 'initialised' if d['init'] else 'unknown'


def wire(a):
    def s(x):
        return '_' if x is None else '(%s %d)' % x
    vs = ' '.join('(v %s %d %d)' % (initial_type(d), 1 if k in a['ext'] else 0, d['rep'][0]) for k, d in enumerate(a['classes']))
    es = ' '.join('(e %d (vars%s) (odes%s) (all%s) %s %s)' % (e['comp'], ''.join(' %d' % v for v in e['vars']), ''.join(' %d' % v for v in e['odes']), ''.join(' %d' % v for v in e['all']), s(e['lhs']), s(e['rhs']))
                  for e in a['eqs'])
    return '(analyse (vars %s) (eqs %s))' % (vs, es)
