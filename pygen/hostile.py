"""C01: hostile inputs for the whole pipeline — structured mutations of generated documents (numbers, names, references,
cycles, nesting, namespaces, 1.x vocabularies) and byte-level damage.  Every input is a bytes object; `describe` says what
was done to it."""
import re

NUMS = ['.', '-', '-.', '+', '+1', 'e5', '1e', '1e+', '.e3', '-e5', '1e99999', '-1e99999', '1e-99999', '0x10', '1,5', ' 1', '1 ', '1\t', '\n2', 'NaN', 'nan', 'inf', '-inf', 'Infinity',
        '1.0.0', '1e5e5', '--1', '1-', '٣', '１２', '9' * 400, '0.' + '0' * 400 + '1', '', '1e', 'E', 'e', '1E', '1.e', '.5.', '5.', '00', '-0', '1d5', '1f', '2147483648', '-2147483649',
        '99999999999999999999', '1_000', '١٢٣', '1e1.5', '0b1', 'true']
NAMES = ['', ' ', '1abc', 'a b', 'a-b', 'é', '_', 'a' * 5000, '<', '&', '"', 'a\x00b', 'model', 'second', 'dimensionless', '../x', 'a:b', '‮', 'ｎａｍｅ']
NUM_ATTRS = ['exponent', 'multiplier', 'prefix', 'initial_value', 'order']


def attr_sub(text, rng, name, values):
    ms = list(re.finditer(r' %s="([^"]*)"' % name, text))
    if not ms:
        return None
    m = rng.choice(ms)
    v = rng.choice(values)
    v = v.replace('&', '&amp;').replace('<', '&lt;').replace('"', '&quot;').replace('\x00', '')
    return text[:m.start(1)] + v + text[m.end(1):]


def mutate(text, rng):
    """one structured mutation of a CellML text; returns (text', description) — text' may equal text when nothing applied"""
    k = rng.randrange(25)
    if k == 22:
        # a CDATA section, a processing instruction or (with an internal DTD) an entity reference between two tags
        gaps = [m.end() for m in re.finditer(r'>', text)][1:-1]
        if gaps:
            pos = rng.choice(gaps)
            what = rng.choice(['<![CDATA[x]]>', '<![CDATA[<ci>x</ci>]]>', '<?pi foo?>', '&foo;', '&foo;'])
            t = text[:pos] + what + text[pos:]
            if what == '&foo;':
                t = re.sub(r'(<\?xml[^>]*\?>)', r'\1<!DOCTYPE model [ <!ENTITY foo "%s"> ]>' % rng.choice(['bar', '<ci>x</ci>', '']), t, count=1)
            return t, 'odd node ' + what[:9]
    if k == 23:
        # a MathML child of <math> that is not an equation
        extra = rng.choice(['<ci>%s</ci>', '<cn cellml:units="dimensionless">1</cn>', '<apply><plus/><ci>%s</ci><ci>%s</ci></apply>', '<piecewise/>', '<pi/>', '<apply><diff/><bvar><ci>%s</ci></bvar><ci>%s</ci></apply>', '<bvar><ci>%s</ci></bvar>'])
        vs = re.findall(r'<ci>([^<]+)</ci>', text) or ['x']
        extra = extra.replace('%s', rng.choice(vs))
        if '</math>' in text:
            if rng.random() < 0.5:
                return text.replace('</math>', extra + '</math>', 1), 'non-equation child of math'
            return re.sub(r'(<math[^>]*>)', lambda m: m.group(1) + extra, text, count=1), 'non-equation child of math'
    if k == 24:
        # an equation without any variable, next to the others
        if '</math>' in text:
            return text.replace('</math>', '<apply><eq/><cn cellml:units="dimensionless">2</cn><cn cellml:units="dimensionless">2</cn></apply></math>', 1), 'equation without variables'
    if k == 0:
        a = rng.choice(NUM_ATTRS)
        t = attr_sub(text, rng, a, NUMS)
        if t:
            return t, 'numeric attribute %s' % a
    if k == 1:
        ms = list(re.finditer(r'(<cn[^>]*>)([^<]*)(</cn>)', text))
        if ms:
            m = rng.choice(ms)
            return text[:m.start(2)] + rng.choice(NUMS).replace('\x00', '') + text[m.end(2):], 'cn content'
    if k == 2:
        a = rng.choice(['name', 'units', 'component', 'variable', 'test_variable', 'component_1', 'component_2', 'variable_1', 'variable_2', 'interface', 'id', 'units_ref', 'component_ref', 'xlink:href'])
        t = attr_sub(text, rng, a, NAMES)
        if t:
            return t, 'name-like attribute %s' % a
    if k == 3:
        # cyclic units, referenced by a variable and by a connection
        cyc = '<units name="cyA"><unit units="cyB"/></units><units name="cyB"><unit units="cyC" exponent="2"/></units><units name="cyC"><unit units="cyA"/></units>'
        entry = 'cyA'
        if rng.random() < 0.5:
            # a cycle that is entered from outside: the starting units are not on it
            cyc = '<units name="cyT"><unit units="cyS"/></units><units name="cyS"><unit units="%s"/><unit units="second"/></units>' % rng.choice(['cyA', 'cyB', 'cyC']) + cyc
            entry = 'cyT'
        pos = rng.choice(['first', 'before-component'])
        t = re.sub(r'(<model [^>]*>)', lambda m: m.group(1) + cyc, text, count=1) if pos == 'first' else text.replace('<component ', cyc + '<component ', 1)
        t = re.sub(r'(<variable [^>]*units=")[^"]*(")', r'\1%s\2' % entry, t, count=rng.randint(1, 3))
        return t, 'cyclic units'
    if k == 4:
        t = re.sub(r'<units name="([^"]+)">', lambda m: '<units name="%s"><unit units="%s"/>' % (m.group(1), m.group(1)), text, count=1)
        return t, 'units defined with themselves'
    if k == 5:
        # deep encapsulation
        n = rng.choice([50, 400, 3000])
        comps = ''.join('<component name="d%d"/>' % i for i in range(n))
        enc = ''.join('<component_ref component="d%d">' % i for i in range(n)) + '</component_ref>' * n
        t = text.replace('</model>', comps + '<encapsulation>' + enc + '</encapsulation></model>')
        return t, 'encapsulation %d deep' % n
    if k == 6:
        n = rng.choice([100, 2000, 20000])
        inner = '<apply><plus/>' * n + '<ci>x</ci>' + '<ci>x</ci></apply>' * n
        t = text.replace('</model>', '<component name="deepmath"><variable name="x" units="dimensionless"/><math xmlns="http://www.w3.org/1998/Math/MathML"><apply><eq/><ci>x</ci>%s</apply></math></component></model>' % inner)
        return t, 'MathML %d deep' % n
    if k == 7:
        return text.replace('http://www.cellml.org/cellml/2.0#', rng.choice(['http://www.cellml.org/cellml/1.0#', 'http://www.cellml.org/cellml/1.1#', 'http://www.w3.org/2000/svg', '', 'urn:x'])), 'namespace swapped'
    if k == 8:
        ms = list(re.finditer(r'<(\w+)[ >/]', text))
        if ms:
            m = rng.choice(ms)
            return text[:m.start(1)] + rng.choice(['model', 'units', 'unit', 'component', 'variable', 'reset', 'test_value', 'reset_value', 'math', 'import', 'connection', 'map_variables', 'encapsulation', 'component_ref', 'apply', 'ci', 'cn', 'bvar', 'piecewise', 'piece', 'degree', 'bogus']) + text[m.end(1):], 'element renamed'
    if k == 9:
        ms = list(re.finditer(r'\n  <(units|component|connection|import|encapsulation)[^\n]*(?:\n    [^\n]*)*\n  </\1>', text))
        if ms:
            m = rng.choice(ms)
            pos = rng.choice([x.start() for x in re.finditer(r'\n', text)] or [0])
            return text[:pos] + m.group(0) + text[pos:], 'element duplicated elsewhere'
    if k == 10:
        ms = list(re.finditer(r'<(ci|cn)[^>]*>[^<]*</\1>', text))
        if ms:
            m = rng.choice(ms)
            return text[:m.start()] + rng.choice(['<ci></ci>', '<ci> </ci>', '<cn></cn>', '<cn cellml:units="second"/>', '<ci>nosuch</ci>', '<cn>1<sep/></cn>', '<cn type="e-notation">1<sep/></cn>', '<cn type="e-notation"><sep/>2</cn>', '<cn type="rational">1<sep/>2</cn>', '<apply/>', '<apply><diff/></apply>', '<apply><diff/><bvar/><ci>x</ci></apply>', '<piecewise/>', '<piecewise><piece/></piecewise>', '<apply><log/><logbase/><ci>x</ci></apply>', '<apply><root/><degree/><ci>x</ci></apply>', '<apply><eq/></apply>', '<apply><power/><ci>x</ci></apply>']) + text[m.end():], 'MathML leaf replaced'
    if k == 11:
        ms = list(re.finditer(r'<(eq|plus|minus|times|divide|power|root|diff|lt|gt|and|or|not|sin|exp|ln|log|abs|min|max|rem)/>', text))
        if ms:
            m = rng.choice(ms)
            return text[:m.start()] + rng.choice(['<eq/>', '<diff/>', '<power/>', '<root/>', '<log/>', '<rem/>', '<not/>', '<piecewise/>', '<bvar/>', '<degree/>', '<logbase/>', '<otherwise/>', '<sep/>', '<csymbol/>', '<semantics/>', '<minus/>', '<divide/>']) + text[m.end():], 'MathML operator replaced'
    if k == 12:
        ms = list(re.finditer(r' (\w+)="[^"]*"', text))
        if ms:
            m = rng.choice(ms)
            return text[:m.start()] + text[m.end():], 'attribute %s removed' % m.group(1)
    if k == 13:
        ms = list(re.finditer(r' (\w+)="[^"]*"', text))
        if ms:
            m = rng.choice(ms)
            return text[:m.end()] + m.group(0) + text[m.end():], 'attribute duplicated'
    if k == 14:
        return text.replace('<model ', '<!DOCTYPE model [<!ENTITY a "aaaaaaaaaa"><!ENTITY b "&a;&a;&a;&a;&a;&a;&a;&a;"><!ENTITY c "&b;&b;&b;&b;&b;&b;&b;&b;"><!ENTITY d "&c;&c;&c;&c;&c;&c;&c;&c;">]>\n<model ', 1).replace('name="c0"', 'name="&d;"', 1), 'entity expansion'
    if k == 15:
        t = re.sub(r'(<reset [^>]*)>', lambda m: m.group(1) + '>' + '<test_value/><reset_value><math xmlns="http://www.w3.org/1998/Math/MathML"/></reset_value><test_value>text</test_value>', text, count=1)
        return t, 'reset children damaged'
    if k == 16:
        ms = list(re.finditer(r'<map_variables[^>]*/>', text))
        if ms:
            m = rng.choice(ms)
            return text[:m.start()] + m.group(0) * rng.choice([2, 30]) + text[m.end():], 'map_variables repeated'
    if k == 17:
        # a variable initialised by itself / by a cycle of names
        t = re.sub(r'(<variable name="(\w+)"[^>]*?)(/>)', lambda m: m.group(1) + ' initial_value="%s"' % m.group(2) + m.group(3) if 'initial_value' not in m.group(1) else m.group(0), text, count=2)
        return t, 'variable initialised by itself'
    if k == 18:
        # self import / import cycle with the files of the base directory
        imp = '<import xmlns:xlink="http://www.w3.org/1999/xlink" xlink:href="%s"><units units_ref="u" name="iu"/><component component_ref="c" name="ic"/></import>' % rng.choice(['self.cellml', 'a.cellml', 'missing.cellml', 'notxml.cellml', '', '.', '/', 'a.cellml#x'])
        t = re.sub(r'(<model [^>]*>)', lambda m: m.group(1) + imp, text, count=1)
        if rng.random() < 0.5:
            # the imported component encapsulates components of this model
            names = re.findall(r'<component name="(\w+)"', t)
            if names:
                enc = '<encapsulation><component_ref component="ic">%s</component_ref></encapsulation>' % ''.join('<component_ref component="%s"/>' % n for n in rng.sample(names, min(len(names), rng.randint(1, 3))))
                t = t.replace('</model>', enc + '</model>')
        return t, 'import added'
    if k == 19:
        return re.sub(r'<connection ', '<connection component_1="c0" component_2="c0" ', text, count=1), 'connection attributes doubled'
    if k == 20:
        ms = list(re.finditer(r'<component_ref component="(\w+)"', text))
        if len(ms) >= 2:
            a, b = ms[0], ms[-1]
            return text[:b.start(1)] + a.group(1) + text[b.end(1):], 'encapsulation cycle'
    return text.replace('>', '>﻿', 1), 'BOM inside'


def damage(data, rng):
    """byte-level damage"""
    k = rng.randrange(6)
    if not data:
        return data, 'empty'
    if k == 0:
        return data[:rng.randrange(len(data))], 'truncated'
    if k == 1:
        b = bytearray(data)
        for _ in range(rng.randint(1, 8)):
            b[rng.randrange(len(b))] = rng.randrange(256)
        return bytes(b), 'bytes replaced'
    if k == 2:
        i = rng.randrange(len(data))
        return data[:i] + bytes(rng.randrange(256) for _ in range(rng.randint(1, 6))) + data[i:], 'bytes inserted'
    if k == 3:
        i = rng.randrange(len(data)); j = min(len(data), i + rng.randint(1, 200))
        return data[:i] + data[j:], 'range deleted'
    if k == 4:
        i = rng.randrange(len(data)); j = min(len(data), i + rng.randint(1, 400))
        return data[:j] + data[i:j] * rng.randint(1, 3) + data[j:], 'range repeated'
    return data.replace(b'UTF-8', rng.choice([b'UTF-16', b'ASCII', b'ISO-8859-1', b'bogus', b'UTF-7']), 1), 'encoding declaration changed'


FIXED = [
    (b'', 'empty input'), (b'\x00', 'NUL'), (b'<', 'lone <'), (b'<?xml version="1.0"?>', 'declaration only'), (b'<model/>', 'model without namespace'),
    (b'<model xmlns="http://www.cellml.org/cellml/2.0#"/>', 'empty model'), (b'<model xmlns="http://www.cellml.org/cellml/2.0#" name=""/>', 'empty name'),
    (b'<math xmlns="http://www.w3.org/1998/Math/MathML"/>', 'MathML root'), (b'<html><body/></html>', 'html'), (b'\xff\xfe<\x00m\x00', 'UTF-16 LE BOM'),
    (b'<model xmlns="http://www.cellml.org/cellml/2.0#" name="m"><units name="a"><unit units="a"/></units><component name="c"><variable name="v" units="a"/><variable name="w" units="a"/></component>'
     b'<component name="d"><variable name="v" units="a" interface="public"/></component><connection component_1="c" component_2="d"><map_variables variable_1="v" variable_2="v"/></connection></model>', 'self-referencing units under a connection'),
    (b'<model xmlns="http://www.cellml.org/cellml/2.0#" name="m"><units name="u"><unit units="second" exponent="."/></units></model>', 'exponent="."'),
    (b'<model xmlns="http://www.cellml.org/cellml/2.0#" name="m"><units name="u"><unit units="second" multiplier="-"/></units></model>', 'multiplier="-"'),
    (b'<model xmlns="http://www.cellml.org/cellml/2.0#" xmlns:cellml="http://www.cellml.org/cellml/2.0#" name="m"><component name="c"><variable name="x" units="second"/><math xmlns="http://www.w3.org/1998/Math/MathML"><apply><eq/><ci>x</ci><cn cellml:units="second">.</cn></apply></math></component></model>', '<cn>.</cn>'),
    (b'<model xmlns="http://www.cellml.org/cellml/2.0#" xmlns:cellml="http://www.cellml.org/cellml/2.0#" name="m"><component name="c"><variable name="x" units="second"/><math xmlns="http://www.w3.org/1998/Math/MathML"><apply><eq/><ci>x</ci><cn cellml:units="second">-</cn></apply></math></component></model>', '<cn>-</cn>'),
    (b'<model xmlns="http://www.cellml.org/cellml/2.0#" name="m"><component name="c"><variable name="x" units="second" initial_value="x"/><variable name="y" units="second" initial_value="."/></component></model>', 'initial values'),
    (b'<model xmlns="http://www.cellml.org/cellml/2.0#" name="m"><component name="c"><variable name="x" units="second"/><reset variable="x" test_variable="x" order="-"><test_value/><reset_value/></reset></component></model>', 'reset order "-"'),
]


# operators with missing operands: the validator does not check the arity of MathML elements, so these reach the analyser and,
# where the equation still determines its variable, the generator
_N = '<cn cellml:units="dimensionless">1</cn>'
_SHAPES = {
    'empty piecewise': '<apply><eq/><ci>v0</ci><piecewise/></apply>', 'empty piece': '<apply><eq/><ci>v0</ci><piecewise><piece/></piecewise></apply>',
    'piece with one child': '<apply><eq/><ci>v0</ci><piecewise><piece>' + _N + '</piece></piecewise></apply>', 'empty otherwise': '<apply><eq/><ci>v0</ci><piecewise><otherwise/></piecewise></apply>',
    'plus without operands': '<apply><eq/><ci>v0</ci><apply><plus/></apply></apply>', 'times with one operand': '<apply><eq/><ci>v0</ci><apply><times/>' + _N + '</apply></apply>',
    'divide with one operand': '<apply><eq/><ci>v0</ci><apply><divide/>' + _N + '</apply></apply>', 'eq with one operand': '<apply><eq/><ci>v0</ci></apply>', 'empty apply': '<apply><eq/><ci>v0</ci><apply/></apply>',
    'log without operand': '<apply><eq/><ci>v0</ci><apply><log/></apply></apply>', 'log with a base only': '<apply><eq/><ci>v0</ci><apply><log/><logbase>' + _N + '</logbase></apply></apply>',
    'root with a degree only': '<apply><eq/><ci>v0</ci><apply><root/><degree>' + _N + '</degree></apply></apply>', 'power with one operand': '<apply><eq/><ci>v0</ci><apply><power/>' + _N + '</apply></apply>',
    'min without operands': '<apply><eq/><ci>v0</ci><apply><min/></apply></apply>', 'min with one operand': '<apply><eq/><ci>v0</ci><apply><min/>' + _N + '</apply></apply>',
    'not without operand': '<apply><eq/><ci>v0</ci><apply><not/></apply></apply>', 'and with one operand': '<apply><eq/><ci>v0</ci><apply><and/>' + _N + '</apply></apply>',
    'lt with one operand': '<apply><eq/><ci>v0</ci><apply><lt/>' + _N + '</apply></apply>', 'sin without operand': '<apply><eq/><ci>v0</ci><apply><sin/></apply></apply>',
    'minus without operands': '<apply><eq/><ci>v0</ci><apply><minus/></apply></apply>', 'rem with one operand': '<apply><eq/><ci>v0</ci><apply><rem/>' + _N + '</apply></apply>',
    'diff without bvar': '<apply><eq/><apply><diff/><ci>v0</ci></apply>' + _N + '</apply>', 'diff with a bvar only': '<apply><eq/><apply><diff/><bvar><ci>t</ci></bvar></apply>' + _N + '</apply>',
    'bare diff on the right': '<apply><eq/><apply><diff/><bvar><ci>t</ci></bvar><ci>v0</ci></apply><apply><diff/></apply></apply>',
}
for _k, _m in _SHAPES.items():
    _ode = 'diff' in _m
    FIXED.append((('<?xml version="1.0" encoding="UTF-8"?><model xmlns="http://www.cellml.org/cellml/2.0#" xmlns:cellml="http://www.cellml.org/cellml/2.0#" name="m"><component name="c0">'
                   '<variable name="v0" units="dimensionless"%s/>%s<math xmlns="http://www.w3.org/1998/Math/MathML">%s</math></component></model>'
                   % (' initial_value="1"' if _ode else '', '<variable name="t" units="dimensionless"/>' if _ode else '', _m)).encode(), 'MathML operator with missing operands: ' + _k))


# nodes that are neither elements, text nor comments in element content (entity references with an internal DTD, CDATA
# sections, processing instructions), and MathML children of <math> that are not equations
_M = '<model xmlns="http://www.cellml.org/cellml/2.0#" xmlns:cellml="http://www.cellml.org/cellml/2.0#" name="m">%s</model>'
_C = '<component name="c"><variable name="x" units="dimensionless"/><variable name="y" units="dimensionless"/>%s</component>'
_EQ = '<apply><eq/><ci>y</ci><cn cellml:units="dimensionless">1</cn></apply>'
for _k, _d in {
        'entity reference in model content': '<?xml version="1.0"?><!DOCTYPE model [ <!ENTITY foo "bar"> ]>' + _M % ('&foo;' + _C % ''),
        'entity reference in component content': '<?xml version="1.0"?><!DOCTYPE model [ <!ENTITY foo "bar"> ]>' + _M % (_C % '&foo;'),
        'entity reference inside math': '<?xml version="1.0"?><!DOCTYPE model [ <!ENTITY foo "<ci>x</ci>"> ]>' + _M % (_C % ('<math xmlns="http://www.w3.org/1998/Math/MathML"><apply><eq/><ci>y</ci>&foo;</apply></math>')),
        'entity reference in an attribute': '<?xml version="1.0"?><!DOCTYPE model [ <!ENTITY foo "second"> ]>' + _M % '<units name="u"><unit units="&foo;"/></units>',
        'CDATA section in model content': '<?xml version="1.0"?>' + _M % ('<![CDATA[x]]>' + _C % ''),
        'CDATA section in component and units': '<?xml version="1.0"?>' + _M % ('<units name="u"><![CDATA[<unit/>]]><unit units="second"/></units>' + _C % '<![CDATA[ ]]>'),
        'CDATA section inside math': '<?xml version="1.0"?>' + _M % (_C % ('<math xmlns="http://www.w3.org/1998/Math/MathML"><![CDATA[x]]>' + _EQ + '</math>')),
        'CDATA section inside ci and cn': '<?xml version="1.0"?>' + _M % (_C % ('<math xmlns="http://www.w3.org/1998/Math/MathML"><apply><eq/><ci><![CDATA[y]]></ci><cn cellml:units="dimensionless"><![CDATA[1]]></cn></apply></math>')),
        'processing instructions everywhere': '<?xml version="1.0"?><?a b?>' + _M % ('<?pi foo?>' + _C % ('<?pi?><math xmlns="http://www.w3.org/1998/Math/MathML"><?pi x?>' + _EQ + '</math>')) + '<?z?>',
        'bare ci as a child of math': '<?xml version="1.0"?>' + _M % (_C % ('<math xmlns="http://www.w3.org/1998/Math/MathML">' + _EQ + '<ci>x</ci></math>')),
        'bare cn as a child of math': '<?xml version="1.0"?>' + _M % (_C % ('<math xmlns="http://www.w3.org/1998/Math/MathML"><cn cellml:units="dimensionless">3</cn>' + _EQ + '</math>')),
        'apply without eq as a child of math': '<?xml version="1.0"?>' + _M % (_C % ('<math xmlns="http://www.w3.org/1998/Math/MathML"><apply><plus/><ci>x</ci><ci>y</ci></apply>' + _EQ + '</math>')),
        'piecewise and constants as children of math': '<?xml version="1.0"?>' + _M % (_C % ('<math xmlns="http://www.w3.org/1998/Math/MathML"><piecewise><otherwise><ci>x</ci></otherwise></piecewise><pi/><true/>' + _EQ + '</math>')),
        'diff as a child of math': '<?xml version="1.0"?>' + _M % (_C % ('<math xmlns="http://www.w3.org/1998/Math/MathML"><apply><diff/><bvar><ci>x</ci></bvar><ci>y</ci></apply></math>')),
        'nested math': '<?xml version="1.0"?>' + _M % (_C % ('<math xmlns="http://www.w3.org/1998/Math/MathML"><math>' + _EQ + '</math></math>')),
        # comments inside token elements (the validator accepts them), qualifiers of diff with odd contents
        'comment before the identifier of a ci': '<?xml version="1.0"?>' + _M % (_C % ('<math xmlns="http://www.w3.org/1998/Math/MathML"><apply><eq/><ci><!--c-->y</ci><cn cellml:units="dimensionless">1</cn></apply></math>')),
        'comment inside a ci and after it': '<?xml version="1.0"?>' + _M % (_C % ('<math xmlns="http://www.w3.org/1998/Math/MathML"><apply><eq/><ci>y<!--c--></ci><apply><plus/><ci><!--a-->x<!--b--></ci><cn cellml:units="dimensionless">1</cn></apply></apply></math>')),
        'comment inside a cn used as an exponent': '<?xml version="1.0"?>' + _M % (_C % ('<math xmlns="http://www.w3.org/1998/Math/MathML"><apply><eq/><ci>y</ci><apply><power/><ci>x</ci><cn cellml:units="dimensionless"><!--c-->2</cn></apply></apply></math>')),
        'comments inside an e-notation cn': '<?xml version="1.0"?>' + _M % (_C % ('<math xmlns="http://www.w3.org/1998/Math/MathML"><apply><eq/><ci>y</ci><cn cellml:units="dimensionless" type="e-notation"><!--a-->1<!--b--><sep/><!--c-->2<!--d--></cn></apply></math>')),
        'diff of an expression, degree 2': '<?xml version="1.0"?>' + _M % (_C % ('<math xmlns="http://www.w3.org/1998/Math/MathML"><apply><eq/><apply><diff/><bvar><ci>x</ci><degree><cn cellml:units="dimensionless">2</cn></degree></bvar><apply><plus/><ci>y</ci><cn cellml:units="dimensionless">1</cn></apply></apply><cn cellml:units="dimensionless">1</cn></apply></math>')),
        'diff of an expression, degree 1': '<?xml version="1.0"?>' + _M % (_C % ('<math xmlns="http://www.w3.org/1998/Math/MathML"><apply><eq/><apply><diff/><bvar><ci>x</ci><degree><cn cellml:units="dimensionless">1</cn></degree></bvar><apply><plus/><ci>y</ci><cn cellml:units="dimensionless">1</cn></apply></apply><cn cellml:units="dimensionless">1</cn></apply></math>')),
        'blank ci in the degree of a bvar': '<?xml version="1.0"?>' + _M % (_C % ('<math xmlns="http://www.w3.org/1998/Math/MathML"><apply><eq/><apply><diff/><bvar><ci>x</ci><degree><ci> </ci></degree></bvar><ci>y</ci></apply><cn cellml:units="dimensionless">1</cn></apply></math>')),
        'cn without exponent in the degree of a bvar': '<?xml version="1.0"?>' + _M % (_C % ('<math xmlns="http://www.w3.org/1998/Math/MathML"><apply><eq/><apply><diff/><bvar><ci>x</ci><degree><cn cellml:units="dimensionless" type="e-notation">1<sep/></cn></degree></bvar><ci>y</ci></apply><cn cellml:units="dimensionless">1</cn></apply></math>')),
        }.items():
    FIXED.append((_d.encode(), 'odd nodes: ' + _k))
