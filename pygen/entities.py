"""Seeded generators / mutators for the value-level object model (wire format of Cellml/Engine/Entity.lean).
Entities are plain python dicts; `sexp_*` renders them."""
import copy, random

NAMES = ['a', 'b', 'c', 'x', 'y', 'v', 'V_m', 'I_Na', 'alpha', 'c_1', 'b4da55', 'b4da56', 'time', 'membrane']
IDS = ['', '', '', 'id1', 'id2', 'b4da55', 'b4da56', 'x', 'i_1']
TEXT = ['', 'a', 'x&y', 'a<b', '"q"', "it's", 'café', ' sp ', 'b4da55']
IFACES = ['none', 'public', 'private', 'public_and_private', '', 'bogus']
STD = ['metre', 'second', 'kilogram', 'ampere', 'volt', 'dimensionless', 'litre', 'gram', 'mole']
PFX = ['', '', 'milli', 'kilo', 'micro', '3', '-2', '1']
NUMS = ['1', '1', '2', '-1', '0.5', '3', '1000', '0.001', '-2', '1.5']
MATH = ['', '<math xmlns="http://www.w3.org/1998/Math/MathML"><apply><eq/><ci>a</ci><ci>b</ci></apply></math>\n',
        '<math xmlns="http://www.w3.org/1998/Math/MathML"><apply><eq/><ci>x</ci><cn xmlns:cellml="http://www.cellml.org/cellml/2.0#" cellml:units="second">1</cn></apply></math>\n']


def H(s):
    return '#' + s.encode('utf-8').hex()


def gen_imp(rng, p=0.2):
    if rng.random() < p:
        return {'src': {'id': rng.choice(IDS), 'url': rng.choice(['lib.cellml', 'other.xml', 'm?a=1&b=2', ''])}, 'ref': rng.choice(NAMES)}
    return {'src': None, 'ref': rng.choice(['', '', '', 'ref'])}


def gen_units(rng, nchild=None):
    n = rng.randint(0, 3) if nchild is None else nchild
    children = [{'ref': rng.choice(STD + NAMES), 'pfx': rng.choice(PFX), 'id': rng.choice(IDS), 'exp': rng.choice(NUMS), 'mult': rng.choice(NUMS)} for _ in range(n)]
    if children and rng.random() < 0.35:
        # identical unit children (metre . metre): a one-to-one matching is needed to compare them
        children.insert(rng.randrange(len(children) + 1), dict(rng.choice(children)))
    return {'id': rng.choice(IDS), 'name': rng.choice(NAMES + STD), 'imp': gen_imp(rng, 0.1), 'children': children}


def _with_twin(rng, items):
    import copy
    if items and rng.random() < 0.25:
        items.insert(rng.randrange(len(items) + 1), copy.deepcopy(rng.choice(items)))
    return items


def gen_var(rng):
    return {'id': rng.choice(IDS), 'name': rng.choice(NAMES), 'initial': rng.choice(['', '', '1', '2.5', 'x', '1e3']), 'iface': rng.choice(IFACES),
            'units': None if rng.random() < 0.15 else gen_units(rng, rng.choice([0, 0, 0, 1, 2]))}


def gen_reset(rng):
    return {'id': rng.choice(IDS), 'order': rng.choice([0, 0, 1, 2, -1, 7, None, None]), 'rv': rng.choice(MATH), 'rvid': rng.choice(IDS), 'tv': rng.choice(MATH), 'tvid': rng.choice(IDS),
            'var': None if rng.random() < 0.2 else gen_var(rng), 'tvar': None if rng.random() < 0.2 else gen_var(rng)}


def gen_comp(rng, depth=2, uniform_vars=None):
    nv = rng.randint(0, 3) if uniform_vars is None else uniform_vars
    return {'id': rng.choice(IDS), 'name': rng.choice(NAMES), 'enc': rng.choice(IDS), 'math': rng.choice(MATH), 'imp': gen_imp(rng, 0.1),
            'vars': [gen_var(rng) for _ in range(nv)], 'resets': _with_twin(rng, [gen_reset(rng) for _ in range(rng.choice([0, 0, 1, 2]))]),
            'kids': [gen_comp(rng, depth - 1, uniform_vars) for _ in range(rng.randint(0, 2 if depth > 0 else 0))] if depth > 0 else []}


def gen_model(rng, uniform_vars=None):
    return {'id': rng.choice(IDS), 'name': rng.choice(NAMES), 'enc': rng.choice(IDS), 'units': [gen_units(rng) for _ in range(rng.randint(0, 3))],
            'comps': [gen_comp(rng, 2, uniform_vars) for _ in range(rng.randint(0, 3))]}


def sexp_imp(i):
    if i['src'] is not None:
        return '(imp %s %s %s)' % (H(i['src']['id']), H(i['src']['url']), H(i['ref']))
    return '(noimp %s)' % H(i['ref'])


def sexp_units(u):
    return '(units %s %s %s%s)' % (H(u['id']), H(u['name']), sexp_imp(u['imp']),
                                   ''.join(' (unit %s %s %s %s %s)' % (H(c['ref']), H(c['pfx']), H(c['id']), H(c['exp']), H(c['mult'])) for c in u['children']))


def sexp_var(v):
    return '(var %s %s %s %s %s)' % (H(v['id']), H(v['name']), H(v['initial']), H(v['iface']), '(nounits)' if v['units'] is None else sexp_units(v['units']))


def sexp_varopt(v):
    if v is None: return '(novar)'
    if isinstance(v, int): return '(own %d)' % v
    return sexp_var(v)


def sexp_reset(r):
    return '(reset %s %s %s %s %s %s %s %s)' % (H(r['id']), 'none' if r['order'] is None else str(r['order']), H(r['rv']), H(r['rvid']), H(r['tv']), H(r['tvid']), sexp_varopt(r['var']), sexp_varopt(r['tvar']))


def sexp_comp(c):
    return '(comp %s %s %s %s %s (vars%s) (resets%s) (kids%s))' % (H(c['id']), H(c['name']), H(c['enc']), H(c['math']), sexp_imp(c['imp']),
        ''.join(' ' + sexp_var(v) for v in c['vars']), ''.join(' ' + sexp_reset(r) for r in c['resets']), ''.join(' ' + sexp_comp(k) for k in c['kids']))


def sexp_model(m):
    return '(model %s %s %s (units%s) (comps%s))' % (H(m['id']), H(m['name']), H(m['enc']), ''.join(' ' + sexp_units(u) for u in m['units']), ''.join(' ' + sexp_comp(c) for c in m['comps']))


SEXP = {'units': sexp_units, 'var': sexp_var, 'reset': sexp_reset, 'comp': sexp_comp, 'model': sexp_model}
GEN = {'units': gen_units, 'var': gen_var, 'reset': gen_reset, 'comp': gen_comp, 'model': gen_model}


def permute(rng, kind, e):
    """shuffle children at every level (content unchanged)"""
    e = copy.deepcopy(e)
    def pu(u):
        rng.shuffle(u['children'])
    def pv(v):
        if v and not isinstance(v, int) and v['units']: pu(v['units'])
    def pc(c):
        rng.shuffle(c['vars']); rng.shuffle(c['resets']); rng.shuffle(c['kids'])
        for v in c['vars']: pv(v)
        for r in c['resets']: pv(r['var']); pv(r['tvar'])
        for k in c['kids']: pc(k)
    if kind == 'units': pu(e)
    elif kind == 'var': pv(e)
    elif kind == 'reset': pv(e['var']); pv(e['tvar'])
    elif kind == 'comp': pc(e)
    else:
        rng.shuffle(e['units']); rng.shuffle(e['comps'])
        for u in e['units']: pu(u)
        for c in e['comps']: pc(c)
    return e


def _other(rng, pool, cur):
    c = [x for x in pool if x != cur]
    return rng.choice(c)


def sites(kind, e, path=()):
    """all mutation sites: (path description, mutator function(rng) applied in place)"""
    out = []
    def s_imp(i, p):
        out.append((p + ('imp.ref',), lambda rng: i.__setitem__('ref', _other(rng, NAMES + [''], i['ref']))))
        if i['src'] is None:
            out.append((p + ('imp.make',), lambda rng: i.__setitem__('src', {'id': '', 'url': 'lib.cellml'})))
        else:
            out.append((p + ('imp.url',), lambda rng: i['src'].__setitem__('url', _other(rng, ['u1', 'u2'], i['src']['url']))))
            out.append((p + ('imp.srcid',), lambda rng: i['src'].__setitem__('id', _other(rng, IDS + ['zz'], i['src']['id']))))
            out.append((p + ('imp.drop',), lambda rng: i.__setitem__('src', None)))
    def s_units(u, p):
        out.append((p + ('units.id',), lambda rng: u.__setitem__('id', _other(rng, IDS + ['zz'], u['id']))))
        out.append((p + ('units.name',), lambda rng: u.__setitem__('name', _other(rng, NAMES, u['name']))))
        s_imp(u['imp'], p + ('units',))
        out.append((p + ('units.addchild',), lambda rng: u['children'].insert(rng.randint(0, len(u['children'])), {'ref': 'candela', 'pfx': '', 'id': '', 'exp': '1', 'mult': '1'})))
        for k, c in enumerate(u['children']):
            out.append((p + ('unit%d.del' % k,), lambda rng, k=k: u['children'].pop(k)))
            for f, pool in (('ref', STD), ('pfx', PFX + ['9']), ('id', IDS + ['zz']), ('exp', NUMS + ['7']), ('mult', NUMS + ['7'])):
                out.append((p + ('unit%d.%s' % (k, f),), lambda rng, c=c, f=f, pool=pool: c.__setitem__(f, _other(rng, pool, c[f]))))
    def s_var(v, p):
        for f, pool in (('id', IDS + ['zz']), ('name', NAMES), ('initial', ['', '1', '2', 'q']), ('iface', IFACES)):
            out.append((p + ('var.' + f,), lambda rng, f=f, pool=pool: v.__setitem__(f, _other(rng, pool, v[f]))))
        if v['units'] is None:
            out.append((p + ('var.units.make',), lambda rng: v.__setitem__('units', {'id': '', 'name': 'second', 'imp': {'src': None, 'ref': ''}, 'children': []})))
        else:
            out.append((p + ('var.units.drop',), lambda rng: v.__setitem__('units', None)))
            s_units(v['units'], p + ('var',))
    def s_reset(r, p):
        out.append((p + ('reset.order',), lambda rng: r.__setitem__('order', (r['order'] or 0) + rng.choice([1, -1, 5]))))
        for f, pool in (('id', IDS + ['zz']), ('rv', MATH + ['m']), ('rvid', IDS + ['zz']), ('tv', MATH + ['m']), ('tvid', IDS + ['zz'])):
            out.append((p + ('reset.' + f,), lambda rng, f=f, pool=pool: r.__setitem__(f, _other(rng, pool, r[f]))))
        for f in ('var', 'tvar'):
            if r[f] is None:
                out.append((p + ('reset.%s.make' % f,), lambda rng, f=f: r.__setitem__(f, {'id': '', 'name': 'nv', 'initial': '', 'iface': '', 'units': None})))
            elif isinstance(r[f], int):
                out.append((p + ('reset.%s.drop' % f,), lambda rng, f=f: r.__setitem__(f, None)))
            else:
                out.append((p + ('reset.%s.drop' % f,), lambda rng, f=f: r.__setitem__(f, None)))
                s_var(r[f], p + ('reset.' + f,))
    def s_comp(c, p):
        for f, pool in (('id', IDS + ['zz']), ('name', NAMES), ('enc', IDS + ['zz']), ('math', MATH + ['m'])):
            out.append((p + ('comp.' + f,), lambda rng, f=f, pool=pool: c.__setitem__(f, _other(rng, pool, c[f]))))
        s_imp(c['imp'], p + ('comp',))
        out.append((p + ('comp.addvar',), lambda rng: c['vars'].insert(rng.randint(0, len(c['vars'])), {'id': '', 'name': 'newv', 'initial': '', 'iface': '', 'units': None})))
        out.append((p + ('comp.addreset',), lambda rng: c['resets'].insert(rng.randint(0, len(c['resets'])), {'id': '', 'order': 99, 'rv': '', 'rvid': '', 'tv': '', 'tvid': '', 'var': None, 'tvar': None})))
        out.append((p + ('comp.addkid',), lambda rng: c['kids'].insert(rng.randint(0, len(c['kids'])), {'id': '', 'name': 'newc', 'enc': '', 'math': '', 'imp': {'src': None, 'ref': ''}, 'vars': [], 'resets': [], 'kids': []})))
        for k, v in enumerate(c['vars']):
            out.append((p + ('var%d.del' % k,), lambda rng, k=k: c['vars'].pop(k)))
            s_var(v, p + ('var%d' % k,))
        for k, r in enumerate(c['resets']):
            out.append((p + ('reset%d.del' % k,), lambda rng, k=k: c['resets'].pop(k)))
            s_reset(r, p + ('reset%d' % k,))
        for k, kid in enumerate(c['kids']):
            out.append((p + ('kid%d.del' % k,), lambda rng, k=k: c['kids'].pop(k)))
            s_comp(kid, p + ('kid%d' % k,))
    if kind == 'units': s_units(e, path)
    elif kind == 'var': s_var(e, path)
    elif kind == 'reset': s_reset(e, path)
    elif kind == 'comp': s_comp(e, path)
    else:
        for f, pool in (('id', IDS + ['zz']), ('name', NAMES), ('enc', IDS + ['zz'])):
            out.append((path + ('model.' + f,), lambda rng, f=f, pool=pool: e.__setitem__(f, _other(rng, pool, e[f]))))
        out.append((path + ('model.addunits',), lambda rng: e['units'].insert(rng.randint(0, len(e['units'])), {'id': '', 'name': 'newu', 'imp': {'src': None, 'ref': ''}, 'children': []})))
        out.append((path + ('model.addcomp',), lambda rng: e['comps'].insert(rng.randint(0, len(e['comps'])), {'id': '', 'name': 'newc', 'enc': '', 'math': '', 'imp': {'src': None, 'ref': ''}, 'vars': [], 'resets': [], 'kids': []})))
        for k, u in enumerate(e['units']):
            out.append((path + ('units%d.del' % k,), lambda rng, k=k: e['units'].pop(k)))
            s_units(u, path + ('units%d' % k,))
        for k, c in enumerate(e['comps']):
            out.append((path + ('comp%d.del' % k,), lambda rng, k=k: e['comps'].pop(k)))
            s_comp(c, path + ('comp%d' % k,))
    return out


def mutate(rng, kind, e):
    """one single-site mutation at a random depth; returns (mutant, site description)"""
    m = copy.deepcopy(e)
    ss = sites(kind, m)
    path, fn = rng.choice(ss)
    fn(rng)
    return m, '/'.join(path)
