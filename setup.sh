#!/bin/sh
# Offline framework build: the Lean package (models, proofs, driver).  The C++ harness is built by
# each check against the library rebuilt from /repo's current working tree.
set -e
cd "$(dirname "$0")"
mkdir -p .cache evidence replays
cd lean
lake build Cellml drv
