import json, os
ROOT = os.path.join(os.path.dirname(os.path.abspath(__file__)), '..')
ALL = ['C%02d' % i for i in range(1, 21)]

CHECKS = {
 'C16': dict(
    engine='num',
    technique='Lean 4 proof: recogniser model = grammar (iff), guard implies stod/stoi precondition; model tied to utilities.cpp by exhaustive differential run',
    text='Machine-checked proof (Lean 4 kernel) that the executable model of isCellMLReal / isCellMLInteger / isCellMLBasicReal accepts exactly the grammar of the statement and that every accepted text satisfies the precondition of std::stod / std::stoi (conversion never throws).  The model is tied to /repo on every run by an exhaustive differential run of the real functions (all strings up to length 4 (quick) / 5 (thorough) over 17 symbols) plus seeded long strings, and an independent grammar oracle is evaluated on the implementation answers.',
    note='Trusted: Lean kernel (axioms propext, Classical.choice, Quot.sound); the harness hx_num.cpp and driver engine; std::stod/stoi modelled by precondition and exact range test (rounding at the edge of the double range not modelled); printing of doubles (%.15g read-back) not yet covered.',
    design='4 C16'),
 'C15': dict(
    engine='logger',
    technique='Lean 4 proof: logger index-vector invariant by induction over operation histories (removeError iff), finite tables by kernel decide; model tied by replaying hook-traced operations of every service call',
    text='Machine-checked proof that the model of LoggerImpl (issue vector + three index vectors, operations exactly as in logger.cpp) is coherent after every history whose removals are tail removals, that removeError keeps coherence iff it erases the last issue, and that coherence gives the count identity, in-order enumeration by error(i)/warning(i)/message(i) and null past the end; kernel decide over tables regenerated from issue.h/issue.cpp/enums.* shows every ReferenceRule and element-type value has a row.  Tie: hook H1 reports every logger operation of every traced Parser/Validator/Importer/Printer/Analyser/Annotator call on the repository test resources (plus truncated/mutated copies); the model replays the trace and all observers are compared; each issue is audited and each failing result must be explained on the implementation.',
    note='Trusted: Lean kernel; hook H1 and hx_logger.cpp; regex table extractor gen/tables.py.  The service failure paths themselves are not modelled in Lean (the explained-failure clause is decided by the implementation-side oracle on the traced calls only); issues are abstracted to their level in the model.  One known finding (assignAllIds(null)).',
    design='4 C15'),
 'C18': dict(
    engine='equiv',
    technique='Lean 4 proof: visited-list DFS = reachability; cache refinement for every query history under an injective unordered-pair key; kernel-checked collision of the superseded Cantor key; tied by differential graph runs and arena placement of real objects',
    text='Machine-checked proof that the model of haveEquivalentVariables (DFS with a tested-variables list, fuel n+1) decides reachability in the equivalence graph, that hasEquivalentVariable(v,true)/areEquivalentVariables are exactly connectivity, and that the cached AnalyserModel query returns the uncached answer for every query history, order and repetition and for every injective address map (the pair key identifies only a pair with its mirror image).  The superseded 64-bit Cantor key is refuted by a kernel-evaluated collision of four aligned user-space addresses and the wrong answer it yields.  Tie: the real key function on thousands of word pairs, generated graphs with all ordered pairs queried in shuffled order with repetitions against the model and a union-find oracle, and the collision witness replayed on real Variable objects placed at chosen addresses by an arena operator new.',
    note='Trusted: Lean kernel; hx_equiv.cpp (private-member access, arena allocator) and the driver; symmetry/closure of equivalence lists is an assumption discharged by C09; which addresses malloc returns is not modelled (theorem is for all injective address maps); staleness of the cache after model edits is outside the claim.',
    design='4 C18'),
 'C08': dict(
    engine='units',
    technique='Lean 4 proof over exact rationals: compatibility = equality of base-exponent vectors (equivalence relation), permutation/indirection invariance, factor inverse/chain laws, code scale = specification scale under the exponent-1 hypothesis; standard tables regenerated from utilities.h and checked by kernel decide; differential run on generated unit DAGs',
    text='Machine-checked proof about the executable model of units.cpp (updateUnitMultiplier, updateUnitsMap, compatible, scalingFactor, equivalent) over exact rationals: compatible holds exactly when both units are defined and have the same exponent of every base dimension, hence is an equivalence relation, is invariant under permutation of unit children and indirection; factor(a,b)·factor(b,a)=1 and factor(a,c)=factor(a,b)·factor(b,c) (as sums of logs), factor undefined (0.0) for incompatible, undefined or null units; equivalent iff compatible with factor 1; the code multiplier equals the specification scale whenever prefixes/multipliers sit on children of exponent 1, with a kernel-checked witness that the hypothesis is needed.  Tie: standard-unit and prefix tables printed by a program including utilities.h and re-checked by decide; generated acyclic unit environments (shuffled insertion order, imported aliases) with all operand pairs compared exactly (multipliers as exact fractions) and an independent exact-fraction reference for compatibility.',
    note='Trusted: Lean kernel; hx_units.cpp and driver; table extractor.  std::map comparison modelled by pointwise equality of lookup functions; floating-point rounding (areEqual, pow) not modelled - inputs chosen so double arithmetic is exact; importing a user base unit, the validator hint multiplier and the analyser copy of the units arithmetic are not modelled; cyclic units belong to C01/C04.',
    design='4 C08'),
 'C10': dict(
    engine='equals',
    technique='Lean 4 proof: greedy one-to-one matching is sound and complete against an equivalence relation; doEquals chain = isomorphism up to child order at every level (iff), hence equivalence relation, count- and attribute-sensitive (cancellation lemma); current tree characterised on uniform-variable-count trees with kernel-checked refutations; differential run on generated entities',
    text='Machine-checked proof about the value-level model of the doEquals chain (Entity, NamedEntity, ImportedEntity, ImportSource, Units, Variable, Reset, ComponentEntity, Component, Model, equalEntities): for units, variables and resets equals is exactly equality of every covered attribute with children compared up to order; for components and models with a size test on every child kind (Fixed_sizeTest) equals holds iff the two trees are isomorphic up to child order at every depth, so it is reflexive, symmetric, transitive, order-insensitive, false on differing child counts and false in both directions after any single covered alteration (cancellation lemma).  For the current tree (variables matched without a size test, pinned by Equality.parseMath) the same is proved on trees with a uniform variable count and refuted by kernel-evaluated witnesses otherwise (known finding).  Tie: generated entities of all five kinds against the real equals() in both directions on copies, child-order permutations at every level, single-site mutations at any depth and permutation triples.',
    note='Trusted: Lean kernel; hx_equals.cpp/hx_entity.h and the driver; generators and pair oracle.  areNearlyEqual 1-ulp band abstracted to token equality; parents/equivalences outside equality by design; one known finding (variable count), attributed only when implementation = current model and the Fixed_sizeTest model satisfies the oracle.',
    design='4 C10'),
 'C13': dict(
    engine='annot',
    technique='Lean 4 proof: makeUniqueId terminates with a fresh id (pigeonhole + injectivity of the hex rendering); cache/model synchronisation invariant by induction over all operation histories; post-condition of assignAllIds/assignId/lookups; kernel-checked witness of the superseded stale-cache behaviour; exact-id differential run on generated models and histories',
    text='Machine-checked proof about the slot-level model of the Annotator bookkeeping (update/hash snapshot, makeUniqueId, doSetAllAutomaticIds visit sequence, assignIds, setAutoId, clearAllIds, lookups): the hex rendering of the counter is injective and makeUniqueId terminates within |list|+1 increments with an identifier outside the list; in every history of setModel / direct model edits / assignments / clearAllIds / lookups the identifier list is synchronised with the recorded model state, hence assignAllIds at any point fills every slot the traversal reaches, leaves existing identifiers unchanged and assigns identifiers that occur exactly once afterwards (distinct from everything present at call time, including edits made after setModel, and from each other); assignId gives a fresh identifier and touches nothing else; itemCount/item agree with the model.  The superseded no-refresh behaviour is refuted by a kernel-evaluated history.  Tie: real Annotator on generated models with duplicated and auto-id-shaped identifiers and connections; after every operation all identifiers of the real model are compared exactly with the model, and an independent oracle checks the post-conditions on the implementation.',
    note='Trusted: Lean kernel; hx_annot.cpp (independent slot/visit traversal) and driver; generator/oracle.  Not modelled: std::hash collisions, item(id,index) among duplicates, MathML ids, shared ImportSource objects, variables with several equivalences (connection-id getter is address dependent, C12), Printer::printModel(model,true).',
    design='4 C13'),
 'C19': dict(
    engine='repair',
    technique='Lean 4 proof: decision logic of fixVariableInterfaces / linkUnits / clean stated outright (post-condition vs the validator model, iff for the false result, idempotence of clean), kernel-checked witness of the superseded early exit; differential run on generated models',
    text='Machine-checked proof about the model of Model::fixVariableInterfaces (publicAndOrPrivateInterfaceTypeRequired, interfaceTypeFor, permitsInterfaceType), of the validator interface check, of linkUnits/hasUnlinkedUnits and of clean: a variable all of whose equivalences are reachable raises no validator interface issue after the fix whatever its interface string was, a sufficient interface is left unchanged, the call returns false exactly when some equivalence is unreachable or involves a parentless variable (and still repairs the others); linkUnits true implies nothing unlinked and every loose reference replaced by the model-owned units of that name, false iff a foreign or missing units; clean removes exactly the empty components (bottom-up) and units and is idempotent.  The superseded early exit is refuted by a kernel-evaluated witness.  Tie: real Model/Validator calls on generated models (arbitrary interface strings; sibling, parent, child, unreachable, other-model, parentless positions; units by loose/standard/own/foreign object; seeded empty components and units), compared with the model and with an independent python reference.',
    note='Trusted: Lean kernel; hx_repair.cpp/hx_entity.h and driver; generators and reference.  Relative positions are computed from component paths; validator interface issues compared per variable as "involved in"; components that are imports, resets and variable units are stripped from the fix scenarios (the validator skips imported components; a reset on a free-standing variable crashes validateReset: C01/C09).',
    design='4 C19'),
 'C11': dict(
    engine='clone',
    technique='Lean 4 proof: clone functions transcribed field by field preserve content (epochs erased) for units, variables, resets, component trees and models (with unit re-linking under a consistency hypothesis); every object of the clone is created by the call (epoch argument) except import sources (known finding, refuted/fixed variants); differential dumps plus pointer-disjointness of the real object graphs',
    text='Machine-checked proof about the model of Units/Variable/Reset/Component/Model::clone in which every object carries the epoch of the call that created it: the content of the clone (all attributes, resets re-targeted by index, whether an order is set, encapsulation ids, unit re-linking, equivalences by position) equals that of the original for every entity, and every object reachable from the clone belongs to the clone epoch — except import sources, which the current code shares with the original (kernel-checked witness; known finding; proved fresh for the counterfactual that clones them).  Tie: real clone() on generated entities of all five kinds (valid or not): wire dumps of clone and original compared with each other and with the model, equals in both directions, no parent, equivalences by position with mapping/connection ids, and pointer disjointness of the two reachable object graphs.',
    note='Trusted: Lean kernel; hx_clone.cpp/hx_entity.h (builder, dumper, reachability) and driver; generators.  Independence is established through disjointness of the reachable entity objects (all mutable state lives there); the "mutate one, re-dump the other" experiment is not run separately.  Mapping/connection ids of equivalences are checked on the implementation only.  One known finding (shared ImportSource).',
    design='4 C11'),
 'C09': dict(
    engine='heap',
    technique='Lean 4 proof: heap model of the container mutators; ownership invariant (listed => parent, no double listing, typed lists, symmetric equivalences) preserved by every valid operation and by induction over histories, for any notion of structural look-alike; acyclicity of the hierarchy under addComponent/removals (ancestor relation, soundness of the hasAncestor test); frame lemmas; full graph dumps compared after every operation of generated histories',
    text='Machine-checked proof about a heap model (parent pointers, per-kind child lists, equivalence lists) of addComponent/addVariable/addReset/addUnits, removal by index, pointer and name, removeAll, add/remove/removeAll equivalences: every operation that is not "add to the container that already holds it" preserves "listed implies parent", absence of double listing (hence one container), typing of lists and symmetry of equivalences, and so does every history from the empty graph (induction); the hierarchy stays acyclic (the executable hasAncestor test is sound w.r.t. the ancestor relation); removing an object that is a child affects exactly that object, a non-child is refused or matched to a look-alike whose own links are cleared.  The theorems hold for any look-alike relation; the engine instantiates it with the C10 equality model evaluated on the heap.  Tie: 12 real objects (identical siblings included), the whole operation alphabet incl. null pointers, out-of-range indices and unknown names on the empty and on a populated graph, random pairs and long random histories; the full object graph is dumped and compared after every operation and an independent graph oracle is evaluated on the implementation.',
    note='PARTIAL.  Trusted: Lean kernel; hx_heap.cpp and driver; generator/oracle.  replaceComponent/replaceUnits are modelled and compared but outside the step theorem; owner release (weak parent pointers expiring), Variable::setUnits, and the entity-taking entry points of annotator/importer/analyser are not in the engine; memory safety is observed (harness crash = violation with the history as replay), not proved.',
    design='4 C09'),
}

def manifest():
    checks = []
    for pid in ALL:
        if pid not in CHECKS:
            continue
        c = CHECKS[pid]
        checks.append(dict(
            property_id=pid,
            quick_cmd='./check %s --tier quick' % pid,
            thorough_cmd='./check %s --tier thorough' % pid,
            evidence_file='evidence/%s.json' % pid,
            replay_cmd_template='./check %s --replay {path}' % pid,
            engine=c['engine'],
            level_claimed=dict(category='proof', text=c['text'], design_ref='DESIGN.md §' + c['design']),
            level_note=c['note'],
            technique=c['technique']))
    na = [dict(property_id=p, reason='not claimed yet: the Lean model, theorems and correspondence engine for this property are still under construction (DESIGN.md §6 gives the order); nothing about it is asserted by another technique')
          for p in ALL if p not in CHECKS]
    hooks = json.load(open(os.path.join(ROOT, 'tools', 'hooks.json')))
    return dict(
        version=1,
        setup_cmd='./setup.sh',
        hooks=dict(guard='LIBCELLML_VERIF',
                   enable='each check configures /repo into a scratch dir with -DCMAKE_CXX_FLAGS=-DLIBCELLML_VERIF (vlib/common.py: build_lib) and links harness/hx_*.cpp against the static library',
                   baseline_off_cmd='python3 tools/baseline_off.py',
                   source_commits=hooks['source_commits'], add_only=True),
        engines=[dict(name='heap', path='harness/hx_heap.cpp + lean/Cellml/Engine/Heap.lean', serves_properties=['C09'], kind_free_text='differential: API histories on 12 real objects vs heap model, full graph dump after every operation'),
                 dict(name='clone', path='harness/hx_clone.cpp + lean/Cellml/Engine/Clone.lean', serves_properties=['C11'], kind_free_text='differential: real clone() dumps / reachability vs epoch-labelled Lean model'),
                 dict(name='repair', path='harness/hx_repair.cpp + lean/Cellml/Engine/Repair.lean', serves_properties=['C19'], kind_free_text='differential: real fixVariableInterfaces/linkUnits/clean (+Validator) vs Lean model'),
                 dict(name='annot', path='harness/hx_annot.cpp + lean/Cellml/Engine/Annot.lean', serves_properties=['C13'], kind_free_text='differential: real Annotator histories vs slot-level Lean model, exact identifiers after every operation'),
                 dict(name='equals', path='harness/hx_equals.cpp + hx_entity.h + lean/Cellml/Engine/Equals.lean', serves_properties=['C10'], kind_free_text='differential: real equals() vs value-level Lean model on generated pairs'),
                 dict(name='units', path='harness/hx_units.cpp + lean/Cellml/Engine/Units.lean', serves_properties=['C08'], kind_free_text='differential: real Units::compatible/scalingFactor/equivalent/updateUnitMultiplier vs exact-rational Lean model'),
                 dict(name='equiv', path='harness/hx_equiv.cpp + lean/Cellml/Engine/Equiv.lean', serves_properties=['C18'], kind_free_text='differential: real equivalence queries/cache key vs Lean model; arena placement of objects'),
                 dict(name='logger', path='harness/hx_logger.cpp + lean/Cellml/Engine/Logger.lean', serves_properties=['C15'], kind_free_text='trace replay: hook-traced logger operations of real service calls vs Lean logger model'),
                 dict(name='num', path='harness/hx_num.cpp + lean/Cellml/Engine/Num.lean', serves_properties=['C16'], kind_free_text='differential: real recognisers vs Lean model, exhaustive short strings')],
        checks=checks,
        notes='Technique family: machine-checked proof in Lean 4.  ./check Cxx = regenerate tables from /repo, lake build of Props/Cxx.lean (kernel), axiom audit, rebuild of /repo + harness, correspondence run, implementation-side oracle.  See DESIGN.md.',
        not_applicable=na)
