#!/usr/bin/env python3
"""Build /repo/_build (hooks guard OFF: no -DLIBCELLML_VERIF) and run every gtest binary;
compare the passing case names with /root/.vp/BASELINE.json `stable_pass`.
exit 0 iff every stable_pass name passes."""
import json, os, subprocess, sys, glob, tempfile, re
from concurrent.futures import ThreadPoolExecutor

B = os.environ.get('VERIF_BUILD_DIR', '/repo/_build')
def main():
    r = subprocess.run(['cmake', '--build', B], stdout=subprocess.PIPE, stderr=subprocess.STDOUT, text=True)
    if r.returncode != 0:
        print(r.stdout[-4000:]); print('BUILD FAILED'); return 2
    bins = sorted(p for p in glob.glob(B + '/tests/test_*') if os.access(p, os.X_OK) and os.path.isfile(p))
    passed, failed = set(), set()
    def run(b):
        with tempfile.NamedTemporaryFile(suffix='.json', delete=False) as f:
            out = f.name
        subprocess.run([b, '--gtest_output=json:' + out], stdout=subprocess.DEVNULL, stderr=subprocess.DEVNULL, cwd=B + '/tests', timeout=900)
        try:
            d = json.load(open(out))
        except Exception:
            d = {'testsuites': []}
        os.unlink(out)
        res = []
        for s in d.get('testsuites', []):
            for t in s.get('testsuite', []):
                res.append((s['name'] + '::' + t['name'], 'failures' not in t and t.get('result') != 'SKIPPED'))
        return res
    with ThreadPoolExecutor(8) as ex:
        for res in ex.map(run, bins):
            for n, ok in res:
                (passed if ok else failed).add(n)
    # ctest entries themselves (python tests, header inclusion tests, ...) are baseline names too
    import xml.etree.ElementTree as ET
    with tempfile.NamedTemporaryFile(suffix='.xml', delete=False) as f:
        jx = f.name
    subprocess.run(['ctest', '--test-dir', B, '-j8', '--timeout', '900', '--output-junit', jx],
                   stdout=subprocess.DEVNULL, stderr=subprocess.DEVNULL)
    for tc in ET.parse(jx).getroot().iter('testcase'):
        n = tc.get('name'); ok = tc.get('status') == 'run' and tc.find('failure') is None
        (passed if ok else failed).add(n + '::' + n)
    os.unlink(jx)
    base = json.load(open('/root/.vp/BASELINE.json'))
    stable = set(base['stable_pass'])
    missing = sorted(stable - passed)
    print(f'passed={len(passed)} failed={len(failed)} stable_pass={len(stable)} stable_not_passing={len(missing)}')
    for m in missing[:50]:
        print('  NOT PASSING:', m)
    print('failed:', sorted(failed))
    return 1 if missing else 0
sys.exit(main())
