#!/usr/bin/env python3
"""Regenerates MANIFEST.json from tools/manifest_src.py (kept as python for comments and reuse)."""
import json, os, sys
sys.path.insert(0, os.path.dirname(os.path.abspath(__file__)))
import manifest_src
json.dump(manifest_src.manifest(), open(os.path.join(os.path.dirname(os.path.abspath(__file__)), '..', 'MANIFEST.json'), 'w'), indent=1)
