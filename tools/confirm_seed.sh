#!/bin/bash
# confirm_seed.sh <ID>: re-verify a sub-agent's seeded change in its scratch worktree /tmp/seed-<ID>:
#   patch applied -> builds, baseline test list passes, demo FAILs; patch stashed -> demo PASSes.
ID=$1; W=/tmp/seed-$ID; O=/tmp/seed-$ID-out
set -e
cd $W
git diff > /tmp/seed-$ID.cur.diff
if ! diff -q /tmp/seed-$ID.cur.diff $O/patch.diff >/dev/null; then echo "NOTE: worktree diff differs from patch.diff; using worktree diff"; cp /tmp/seed-$ID.cur.diff $O/patch.diff; fi
echo "== with change: build + baseline"
VERIF_BUILD_DIR=$W/_build python3 /verif/tools/baseline_off.py | tail -3 | cut -c1-250
LIB=$(ls $W/_build/src/libcellml*.so | head -1); LN=$(basename $LIB .so); LN=${LN#lib}
g++ -std=c++17 -I$W/src/api -I$W/_build/src/api -I$W/src $O/demo.cpp -L$W/_build/src -l$LN -Wl,-rpath,$W/_build/src -o $O/demo_bin
set +e
( cd $O && ./demo_bin > demo_with.txt 2>&1 ); echo "demo with change: exit=$? $(tail -1 $O/demo_with.txt | cut -c1-150)"
set -e
git stash -q
cmake --build $W/_build > /dev/null
set +e
( cd $O && ./demo_bin > demo_without.txt 2>&1 ); echo "demo without change: exit=$? $(tail -1 $O/demo_without.txt | cut -c1-150)"
set -e
git stash pop -q
cmake --build $W/_build > /dev/null
