#!/bin/bash
# try_seed.sh <patch.diff> <check ids...>: apply a seeded change to /repo, run the full baseline (guard off)
# and the given checks, then undo it.  Never leaves /repo modified.
P=$1; shift
cd /repo && git apply $P || { echo "patch does not apply"; exit 2; }
trap 'git -C /repo checkout -- . ; cmake --build /repo/_build >/dev/null 2>&1' EXIT
echo "== baseline with the change (guard off)"; python3 /verif/tools/baseline_off.py | tail -3 | cut -c1-200
for c in "$@"; do echo "== ./check $c"; (cd /verif && ./check $c 2>&1 | grep -v "^  violation detail" | tail -4 | cut -c1-400); done
