// hx_pipeline <file> <strict|permissive> <basedir>: every public stage reachable from the parsed model, with a marker
// before each (C01).  The caller treats a signal, a non-zero exit (uncaught exception) or a timeout as a failure at the
// last marker printed.
#include <fstream>
#include <iostream>
#include <sstream>
#include "libcellml/module/libcellml"
using namespace libcellml;
namespace libcellml { std::vector<UnitsPtr> referencedUnits(const ModelPtr &model, const UnitsPtr &units); }

static void stage(const char *s) { std::cout << "stage " << s << std::endl; }

static void walk(const ComponentPtr &c)
{
    c->isDefined(); c->isResolved(); c->requiresImports();
    for (size_t i = 0; i < c->variableCount(); ++i) {
        auto v = c->variable(i);
        if (v->units() != nullptr) { v->units()->isBaseUnit(); v->units()->isDefined(); }
        for (size_t k = 0; k < v->equivalentVariableCount(); ++k) {
            auto w = v->equivalentVariable(k);
            if (v->units() != nullptr && w->units() != nullptr) {
                Units::compatible(v->units(), w->units()); Units::equivalent(v->units(), w->units()); Units::scalingFactor(v->units(), w->units());
            }
        }
    }
    for (size_t i = 0; i < c->componentCount(); ++i) walk(c->component(i));
}

int main(int argc, char **argv)
{
    if (argc < 4) return 2;
    std::ifstream f(argv[1], std::ios::binary);
    std::stringstream b; b << f.rdbuf();
    if (std::string(argv[2]) == "walk") {
        // the real referencedUnits on every units of the model: <name>:<count>
        auto m = Parser::create(false)->parseModel(b.str());
        std::string out;
        for (size_t i = 0; i < m->unitsCount(); ++i) out += (i ? " " : "") + m->units(i)->name() + ":" + std::to_string(referencedUnits(m, m->units(i)).size());
        std::cout << out << std::endl;
        // every other recursion over unit references, started at every units: they must return
        std::string q;
        for (size_t i = 0; i < m->unitsCount(); ++i) {
            auto u = m->units(i);
            q += (u->isDefined() ? "d" : "-");
            q += (u->isResolved() ? "r" : "-");
            q += (u->requiresImports() ? "i" : "-");
            q += (u->isBaseUnit() ? "b" : "-");
            for (size_t j = 0; j < m->unitsCount(); ++j) { Units::compatible(u, m->units(j)); Units::scalingFactor(u, m->units(j)); }
            q += " ";
        }
        q += m->hasImports() ? "I" : "-";
        q += m->hasUnresolvedImports() ? "U" : "-";
        q += m->isDefined() ? "D" : "-";
        auto v = Validator::create(); v->validateModel(m);
        auto pr = Printer::create(); pr->printModel(m);
        std::cout << "queries " << q << std::endl;
        return 0;
    }
    bool strict = std::string(argv[2]) == "strict";
    bool mathapi = std::string(argv[2]) == "mathapi";
    stage("parse");
    auto parser = Parser::create(strict);
    ModelPtr model;
    if (mathapi) {
        // the input is a math string handed to the object model through the API (Component::setMath, Reset::setTestValue /
        // setResetValue), not a document
        model = Model::create("m");
        auto c = Component::create("c");
        auto x = Variable::create("x"); x->setUnits("dimensionless");
        auto y = Variable::create("y"); y->setUnits("dimensionless");
        c->addVariable(x); c->addVariable(y);
        c->setMath(b.str());
        auto r = Reset::create(); r->setVariable(x); r->setTestVariable(y); r->setOrder(1);
        r->setTestValue(b.str()); r->setResetValue(b.str());
        c->addReset(r);
        model->addComponent(c);
    } else {
        model = parser->parseModel(b.str());
    }
    std::cout << "issues " << parser->issueCount() << std::endl;
    if (model == nullptr) { stage("done"); return 0; }
    stage("validate");
    auto validator = Validator::create();
    validator->validateModel(model);
    std::cout << "issues " << validator->issueCount() << std::endl;
    stage("print");
    auto printer = Printer::create();
    auto text = printer->printModel(model);
    std::cout << "bytes " << text.size() << std::endl;
    stage("queries");
    model->isDefined(); model->hasImports(); model->hasUnresolvedImports(); model->hasUnlinkedUnits();
    for (size_t i = 0; i < model->unitsCount(); ++i) {
        auto u = model->units(i);
        u->isDefined(); u->isResolved(); u->isBaseUnit(); u->requiresImports();
        for (size_t j = 0; j < model->unitsCount(); ++j) { Units::compatible(u, model->units(j)); Units::scalingFactor(u, model->units(j)); }
    }
    for (size_t i = 0; i < model->componentCount(); ++i) walk(model->component(i));
    stage("clone");
    auto copy = model->clone();
    copy->equals(model);
    stage("fix");
    copy->linkUnits(); copy->fixVariableInterfaces(); copy->clean();
    stage("annotate");
    auto annotator = Annotator::create();
    annotator->setModel(model->clone());
    annotator->assignAllIds();
    stage("resolve");
    auto importer = Importer::create(strict);
    importer->resolveImports(model, argv[3]);
    std::cout << "issues " << importer->issueCount() << std::endl;
    model->hasUnresolvedImports();
    stage("flatten");
    auto flat = importer->flattenModel(model);
    std::cout << "flat " << (flat == nullptr ? 0 : 1) << std::endl;
    if (flat != nullptr) {
        stage("validate-flat");
        validator->validateModel(flat);
        stage("print-flat");
        printer->printModel(flat);
    }
    for (auto m : {model, flat}) {
        if (m == nullptr) continue;
        stage("analyse");
        auto analyser = Analyser::create();
        analyser->analyseModel(m);
        std::cout << "issues " << analyser->issueCount() << " type " << AnalyserModel::typeAsString(analyser->model()->type()) << std::endl;
        stage("generate-c");
        auto generator = Generator::create();
        generator->setModel(analyser->model());
        std::cout << "bytes " << generator->interfaceCode().size() + generator->implementationCode().size() << std::endl;
        stage("generate-python");
        generator->setProfile(GeneratorProfile::create(GeneratorProfile::Profile::PYTHON));
        std::cout << "bytes " << generator->implementationCode().size() << std::endl;
    }
    stage("done");
    return 0;
}
