// Engine `repair` (C19): Model::fixVariableInterfaces / linkUnits / hasUnlinkedUnits / clean on real objects.
//   (fix M (equivs (e <pathA> <idxA> T)*))        T = (in <path> <idx>) | (out <path> <idx>) | (loosecomp) | (loosevar)
//     -> (vars (v <path> <idx> <iface>)*) (r <b> (v <iface after> <issue before> <issue after>)*)
//   (link M (refs (u <path> <idx> KIND #name)*))  KIND = none | standard | linked | foreign | loose | loosechild
//     -> (units #name*) (r <unlinked before> <b> <unlinked after> (u KIND #name)*)
//   (clean M) -> (r (comps <tree>*) (units #name|#id*))
#include "hx_entity.h"
#include "utilities.h"
#include "commonutils.h"
using namespace libcellml;

static ComponentPtr compAt(const ModelPtr &m, const std::string &path)
{
    ComponentPtr c;
    std::stringstream ss(path);
    std::string item;
    bool first = true;
    while (std::getline(ss, item, '.')) {
        size_t i = size_t(atol(item.c_str()));
        c = first ? m->component(i) : c->component(i);
        first = false;
        if (c == nullptr) return nullptr;
    }
    return c;
}

struct VarRef { std::string path; size_t idx; VariablePtr v; };

static void collectVars(const ComponentPtr &c, const std::string &path, std::vector<VarRef> &out)
{
    for (size_t i = 0; i < c->variableCount(); ++i) out.push_back({path, i, c->variable(i)});
    for (size_t k = 0; k < c->componentCount(); ++k) collectVars(c->component(k), path + "." + std::to_string(k), out);
}

// variables involved in an interface / unreachable-equivalence issue of the validator
static std::vector<bool> validatorFlags(const ModelPtr &model, const std::vector<VarRef> &vars)
{
    std::vector<bool> flags(vars.size(), false);
    auto validator = Validator::create();
    validator->validateModel(model);
    for (size_t i = 0; i < validator->issueCount(); ++i) {
        auto is = validator->issue(i);
        if (is->referenceRule() != Issue::ReferenceRule::MAP_VARIABLES_ELEMENT) continue;
        auto item = is->item();
        for (size_t k = 0; k < vars.size(); ++k) {
            if (item->type() == CellmlElementType::VARIABLE && item->variable() == vars[k].v) flags[k] = true;
            if (item->type() == CellmlElementType::MAP_VARIABLES && item->variablePair() != nullptr
                && (item->variablePair()->variable1() == vars[k].v || item->variablePair()->variable2() == vars[k].v)) flags[k] = true;
        }
    }
    return flags;
}

static std::string runFix(const hx::Sexp &e)
{
    auto model = hxe::buildModel(e[1]);
    auto other = hxe::buildModel(e[1]);     // a second model with the same structure
    other->setName("other_model");
    std::vector<VariablePtr> keepAlive;
    std::vector<ComponentPtr> keepComps;
    const auto &eq = e[2];
    for (size_t i = 1; i < eq.size(); ++i) {
        const auto &q = eq[i];
        auto ca = compAt(model, q[1].atom);
        if (ca == nullptr) return "bad-equiv";
        auto va = ca->variable(size_t(atol(q[2].atom.c_str())));
        if (va == nullptr) return "bad-equiv";
        const auto &t = q[3];
        VariablePtr vb;
        if (t.head() == "in" || t.head() == "out") {
            auto cb = compAt(t.head() == "in" ? model : other, t[1].atom);
            if (cb == nullptr) return "bad-equiv";
            vb = cb->variable(size_t(atol(t[2].atom.c_str())));
        } else if (t.head() == "loosecomp") {
            auto c = Component::create("loose");
            vb = Variable::create("lv");
            c->addVariable(vb);
            keepComps.push_back(c);
        } else {
            vb = Variable::create("parentless");
        }
        if (vb == nullptr) return "bad-equiv";
        keepAlive.push_back(vb);
        Variable::addEquivalence(va, vb);
    }
    std::vector<VarRef> all, vars;
    for (size_t c = 0; c < model->componentCount(); ++c) collectVars(model->component(c), std::to_string(c), all);
    std::ostringstream out;
    out << "(vars";
    for (auto &v : all) out << " (v " << v.path << " " << v.idx << " " << hx::H(v.v->interfaceType()) << ")";
    out << ") ";
    for (auto &v : all) if (v.v->equivalentVariableCount() > 0) vars.push_back(v);
    auto before = validatorFlags(model, vars);
    bool ok = model->fixVariableInterfaces();
    auto after = validatorFlags(model, vars);
    out << "(r " << (ok ? 1 : 0);
    for (size_t k = 0; k < vars.size(); ++k) out << " (v " << hx::H(vars[k].v->interfaceType()) << " " << (before[k] ? 1 : 0) << " " << (after[k] ? 1 : 0) << ")";
    out << ")";
    return out.str();
}

static std::string kindOf(const ModelPtr &model, const VariablePtr &v)
{
    auto u = v->units();
    if (u == nullptr) return "(u none #)";
    auto owner = owningModel(u);
    std::string k;
    if (owner == model) k = "linked";
    else if (owner != nullptr) k = isStandardUnit(u) ? "foreignstd" : "foreign";
    else if (isStandardUnit(u)) k = "standard";
    else k = "loose";
    return "(u " + k + " " + hx::H(u->name()) + ")";
}

static std::string runLink(const hx::Sexp &e)
{
    auto model = hxe::buildModel(e[1]);
    auto other = Model::create("other");
    std::vector<VarRef> all;
    for (size_t c = 0; c < model->componentCount(); ++c) collectVars(model->component(c), std::to_string(c), all);
    // start from variables without units, then apply the requested references
    for (auto &v : all) v.v->removeUnits();
    const auto &refs = e[2];
    for (size_t i = 1; i < refs.size(); ++i) {
        const auto &r = refs[i];
        auto c = compAt(model, r[1].atom);
        if (c == nullptr) return "bad-ref";
        auto v = c->variable(size_t(atol(r[2].atom.c_str())));
        if (v == nullptr) return "bad-ref";
        std::string kind = r[3].atom, name = r[4].text();
        if (kind == "none") v->removeUnits();
        else if (kind == "standard" || kind == "loose") v->setUnits(Units::create(name));
        else if (kind == "loosechild") { auto u = Units::create(name); u->addUnit("second"); v->setUnits(u); }
        else if (kind == "linked") { if (!model->hasUnits(name)) return "bad-ref"; v->setUnits(model->units(name)); }
        else if (kind == "foreign") { auto u = Units::create(name); other->addUnits(u); v->setUnits(u); }
    }
    std::ostringstream out;
    out << "(units";
    for (size_t i = 0; i < model->unitsCount(); ++i) out << " " << hx::H(model->units(i)->name());
    out << ") (before";
    for (auto &v : all) out << " " << kindOf(model, v.v);
    out << ") ";
    bool ub = model->hasUnlinkedUnits();
    bool ok = model->linkUnits();
    bool ua = model->hasUnlinkedUnits();
    out << "(r " << (ub ? 1 : 0) << " " << (ok ? 1 : 0) << " " << (ua ? 1 : 0);
    for (auto &v : all) {
        out << " " << kindOf(model, v.v);
        // "holds the model's own units object of that name"
        auto u = v.v->units();
        if (u != nullptr && owningModel(u) == model && model->units(u->name()) != u) out << " (not-the-models-object)";
    }
    out << ")";
    return out.str();
}

static std::string dumpComp(const ComponentPtr &c)
{
    std::string r = "(c " + hx::H(c->name()) + " " + hx::H(c->id()) + " " + std::to_string(c->variableCount()) + " " + std::to_string(c->resetCount());
    for (size_t k = 0; k < c->componentCount(); ++k) r += " " + dumpComp(c->component(k));
    return r + ")";
}

static std::string runClean(const hx::Sexp &e)
{
    auto model = hxe::buildModel(e[1]);
    model->clean();
    std::string r = "(r (comps";
    for (size_t k = 0; k < model->componentCount(); ++k) r += " " + dumpComp(model->component(k));
    r += ") (units";
    for (size_t k = 0; k < model->unitsCount(); ++k) r += " " + hx::H(model->units(k)->name()) + "|" + hx::H(model->units(k)->id());
    return r + "))";
}

int main()
{
    std::string line;
    while (std::getline(std::cin, line)) {
        hx::Sexp e;
        size_t i = 0;
        if (!hx::parseSexp(line, i, e)) { puts("bad-line"); continue; }
        std::string r = hx::forked([&]() -> std::string {
            if (e.head() == "fix") return runFix(e);
            if (e.head() == "link") return runLink(e);
            if (e.head() == "clean") return runClean(e);
            return "bad-line";
        });
        printf("%s\n", r.c_str());
        fflush(stdout);
    }
    return 0;
}
