// Engine `units` (C08): the real Units::compatible / scalingFactor / equivalent / updateUnitMultiplier.
//   tables                         -> the standard-unit tables of utilities.h as text (T-tie)
//   stdin lines: (units (env <def>*) (order <i>*) (q <op> <op>)*)   defs: (c <child>*) | (a <j>)
//        child: (u <j> <pfx> <exp> <lg>) | (s <stdIndex> <pfx> <exp> <lg>)   numbers: p/q
//        op: (u <i>) | (s <stdIndex>) | (n)
//   -> (r (q <compat> <zero> <ma> <mb> <equiv> <consistent>)*)  per line
#include "hx_common.h"
#include <cmath>
#include <map>
#include "libcellml/module/libcellml"
#include "utilities.h"

using namespace libcellml;
namespace libcellml { bool updateUnitMultiplier(const UnitsPtr &units, int direction, double &multiplier); }

static std::vector<std::string> stdNames()
{
    std::vector<std::string> r;
    for (auto &kv : standardUnitsList) r.push_back(kv.first);
    return r;
}

static double num(const std::string &s)
{
    auto d = s.find('/');
    if (d == std::string::npos) return atof(s.c_str());
    return atof(s.substr(0, d).c_str()) / atof(s.substr(d + 1).c_str());
}

static std::string prefixName(double p)
{
    // integer prefixes are written as integers; a few as SI names to exercise both forms
    static const std::map<int, std::string> names = {{3, "kilo"}, {-3, "milli"}, {-6, "micro"}, {6, "mega"}, {-2, "centi"}, {-9, "nano"}, {1, "deca"}, {-1, "deci"}, {2, "hecto"}, {9, "giga"}};
    int i = int(p);
    if (i == 0) return "";
    auto it = names.find(i);
    if (it != names.end() && (i % 2 != 0 || i == 6 || i == 2)) return it->second;
    return std::to_string(i);
}

static std::string run(const hx::Sexp &e)
{
    auto names = stdNames();
    const hx::Sexp *env = nullptr, *order = nullptr;
    std::vector<const hx::Sexp *> qs;
    for (size_t i = 1; i < e.size(); ++i) {
        if (e[i].head() == "env") env = &e[i];
        else if (e[i].head() == "order") order = &e[i];
        else if (e[i].head() == "q") qs.push_back(&e[i]);
    }
    if (env == nullptr || order == nullptr) return "bad-line";
    size_t n = env->size() - 1;
    auto model = Model::create("m");
    auto lib = Model::create("lib");
    auto imp = ImportSource::create();
    imp->setUrl("lib.cellml");
    imp->setModel(lib);
    std::vector<UnitsPtr> us(n), ls(n);
    auto fill = [&](const UnitsPtr &u, const hx::Sexp &d) {
        for (size_t k = 1; k < d.size(); ++k) {
            const auto &c = d[k];
            std::string ref = c.head() == "s" ? names.at(size_t(atol(c[1].atom.c_str()))) : "u" + c[1].atom;
            u->addUnit(ref, prefixName(num(c[2].atom)), num(c[3].atom), std::pow(10.0, num(c[4].atom)));
        }
    };
    for (size_t i = 0; i < n; ++i) {
        const auto &d = (*env)[i + 1];
        us[i] = Units::create("u" + std::to_string(i));
        ls[i] = Units::create("u" + std::to_string(i));
        if (d.head() == "a") {
            us[i]->setImportSource(imp);
            us[i]->setImportReference("u" + d[1].atom);
            ls[i]->addUnit("u" + d[1].atom);     // the library renames instead of importing
        } else {
            fill(us[i], d);
            fill(ls[i], d);
        }
    }
    for (size_t k = 1; k < order->size(); ++k) {
        size_t i = size_t(atol((*order)[k].atom.c_str()));
        model->addUnits(us.at(i));
    }
    for (size_t i = 0; i < n; ++i) lib->addUnits(ls[n - 1 - i]);
    auto operand = [&](const hx::Sexp &o) -> UnitsPtr {
        if (o.head() == "n") return nullptr;
        if (o.head() == "s") return Units::create(names.at(size_t(atol(o[1].atom.c_str()))));
        size_t i = size_t(atol(o[1].atom.c_str()));
        if (i >= n) { auto u = Units::create("missing"); u->addUnit("nowhere"); model->addUnits(u); return u; }
        return us[i];
    };
    // two connected variables of sibling components, to ask the validator about a pair of units of the model
    auto vc1 = Component::create("vc1"), vc2 = Component::create("vc2");
    auto vv1 = Variable::create("vv1"), vv2 = Variable::create("vv2");
    vv1->setInterfaceType("public"); vv2->setInterfaceType("public");
    vc1->addVariable(vv1); vc2->addVariable(vv2);
    model->addComponent(vc1); model->addComponent(vc2);
    Variable::addEquivalence(vv1, vv2);
    auto validator = Validator::create();
    std::ostringstream out;
    out << "(r";
    for (auto *q : qs) {
        auto a = operand((*q)[1]), b = operand((*q)[2]);
        // the validator's verdict on connected variables in these units: 1 = "non-matching units" reported, 0 = not, - = not asked
        std::string verdict = "-";
        if ((*q)[1].head() == "u" && (*q)[2].head() == "u" && a != nullptr && b != nullptr && a->isDefined() && b->isDefined()
            && size_t(atol((*q)[1][1].atom.c_str())) < n && size_t(atol((*q)[2][1].atom.c_str())) < n) {
            vv1->setUnits(a); vv2->setUnits(b);
            validator->validateModel(model);
            verdict = "0";
            for (size_t k = 0; k < validator->issueCount(); ++k) {
                if (validator->issue(k)->referenceRule() == Issue::ReferenceRule::MAP_VARIABLES_ELEMENT
                    && validator->issue(k)->description().find("non-matching units") != std::string::npos) verdict = "1";
            }
            vv1->removeUnits(); vv2->removeUnits();
        }
        bool compat = Units::compatible(a, b);
        double sf = Units::scalingFactor(a, b);
        double sfRev = Units::scalingFactor(b, a);
        bool eq = Units::equivalent(a, b);
        double ma = 0.0, mb = 0.0;
        bool oka = a != nullptr && a->isDefined() && updateUnitMultiplier(a, 1, ma);
        bool okb = b != nullptr && b->isDefined() && updateUnitMultiplier(b, 1, mb);
        // consistency of the public factor with the internal multipliers (property oracle on the implementation side)
        bool consistent = true;
        if (compat) {
            double expect = std::pow(10.0, mb - ma);
            consistent = sf > 0.0 && std::fabs(sf - expect) <= 1e-9 * expect && std::fabs(sf * sfRev - 1.0) <= 1e-9;
        } else {
            consistent = sf == 0.0 && !eq;
        }
        char buf[256];
        snprintf(buf, sizeof buf, " (q %d %d %s %s %d %d)", compat ? 1 : 0, sf == 0.0 ? 1 : 0,
                 oka ? (std::string("m") + std::to_string(0)).c_str() : "none", "x", eq ? 1 : 0, consistent ? 1 : 0);
        out << " (q " << (compat ? 1 : 0) << " " << (sf == 0.0 ? 1 : 0) << " ";
        char nb[64];
        if (oka) { snprintf(nb, sizeof nb, "%.17g", ma); out << nb; } else out << "none";
        out << " ";
        if (okb) { snprintf(nb, sizeof nb, "%.17g", mb); out << nb; } else out << "none";
        out << " " << (eq ? 1 : 0) << " " << (consistent ? 1 : 0) << " " << verdict << ")";
    }
    out << ")";
    return out.str();
}

int main(int argc, char **argv)
{
    if (argc > 1 && std::string(argv[1]) == "tables") {
        for (auto &b : baseUnitsList) printf("BASE %s\n", b.c_str());
        for (auto &kv : standardUnitsList) {
            printf("STD %s %.17g", kv.first.c_str(), standardMultiplierList.at(kv.first));
            for (auto &be : kv.second) printf(" %s:%.17g", be.first.c_str(), be.second);
            printf("\n");
        }
        const char *prefixes[] = {"yotta", "zetta", "exa", "peta", "tera", "giga", "mega", "kilo", "hecto", "deca", "deci", "centi", "milli", "micro", "nano", "pico", "femto", "atto", "zepto", "yocto", "", "7", "-12"};
        for (auto p : prefixes) { bool ok; int v = convertPrefixToInt(p, &ok); printf("PREFIX %s %d %d\n", *p ? p : "-", v, ok ? 1 : 0); }
        return 0;
    }
    std::string line;
    while (std::getline(std::cin, line)) {
        hx::Sexp e;
        size_t i = 0;
        if (!hx::parseSexp(line, i, e) || e.head() != "units") { puts("bad-line"); continue; }
        std::string r = hx::forked([&]() { return run(e); });
        printf("%s\n", r.c_str());
        fflush(stdout);
    }
    return 0;
}
