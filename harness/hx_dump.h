// Canonical content dump of a model (child order insignificant: sorted) and issue lists; shared by hx_roundtrip and hx_import.
#pragma once
#include <algorithm>
#include <regex>
#include <set>
#include <string>
#include <vector>
#include "hx_common.h"
#include "libcellml/module/libcellml"
using namespace libcellml;

static std::string q(const std::string &s) { return hx::H(s); }
static std::string num(double d) { char b[64]; snprintf(b, sizeof b, "%.17g", d); return b; }
static std::string ws(const std::string &s)
{
    // insignificant whitespace of MathML / test / reset values: drop blanks between tags and at the ends
    std::string r = std::regex_replace(s, std::regex(">\\s+<"), "><");
    r = std::regex_replace(r, std::regex("^\\s+|\\s+$"), "");
    return r;
}
static std::string imp(const ImportedEntityPtr &e)
{
    if (!e->isImport()) return "-";
    return "(imp " + q(e->importSource()->url()) + " " + q(e->importReference()) + " " + q(e->importSource()->id()) + ")";
}
static std::string path(const ComponentPtr &c)
{
    std::string p = c->name();
    auto par = c->parent();
    while (par != nullptr) {
        auto pc = std::dynamic_pointer_cast<Component>(par);
        if (pc == nullptr) break;
        p = pc->name() + "/" + p;
        par = pc->parent();
    }
    return p;
}
static void dumpComponent(const ComponentPtr &c, std::vector<std::string> &out, std::set<std::string> &eq, const std::string &indent)
{
    std::string line = indent + "(component " + q(c->name()) + " id " + q(c->id()) + " encid " + q(c->encapsulationId()) + " " + imp(c) + " math " + q(ws(c->math()));
    std::vector<std::string> vs;
    for (size_t i = 0; i < c->variableCount(); ++i) {
        auto v = c->variable(i);
        vs.push_back("(var " + q(v->name()) + " " + q(v->units() ? v->units()->name() : std::string("<null>")) + " " + q(v->initialValue()) + " " + q(v->interfaceType()) + " " + q(v->id()) + ")");
        for (size_t k = 0; k < v->equivalentVariableCount(); ++k) {
            auto w = v->equivalentVariable(k);
            auto wc = std::dynamic_pointer_cast<Component>(w->parent());
            std::string a = path(c) + ":" + v->name(), b = (wc ? path(wc) : std::string("<orphan>")) + ":" + w->name();
            std::string e = (a < b ? a + " ~ " + b : b + " ~ " + a) + " map " + q(Variable::equivalenceMappingId(v, w)) + " con " + q(Variable::equivalenceConnectionId(v, w));
            eq.insert(e);
        }
    }
    std::sort(vs.begin(), vs.end());
    for (auto &x : vs) line += " " + x;
    std::vector<std::string> rs;
    for (size_t i = 0; i < c->resetCount(); ++i) {
        auto r = c->reset(i);
        rs.push_back("(reset " + q(r->variable() ? r->variable()->name() : "<null>") + " " + q(r->testVariable() ? r->testVariable()->name() : "<null>") + " "
                     + (r->isOrderSet() ? std::to_string(r->order()) : std::string("unset")) + " " + q(r->id()) + " tv " + q(ws(r->testValue())) + " " + q(r->testValueId())
                     + " rv " + q(ws(r->resetValue())) + " " + q(r->resetValueId()) + ")");
    }
    std::sort(rs.begin(), rs.end());
    for (auto &x : rs) line += " " + x;
    out.push_back(line + ")");
    std::vector<std::pair<std::string, ComponentPtr>> kids;
    for (size_t i = 0; i < c->componentCount(); ++i) kids.push_back({c->component(i)->name(), c->component(i)});
    std::stable_sort(kids.begin(), kids.end(), [](auto &a, auto &b) { return a.first < b.first; });
    for (auto &k : kids) dumpComponent(k.second, out, eq, indent + "  ");
}
static std::string dump(const ModelPtr &m)
{
    if (m == nullptr) return "<null model>\n";
    std::string r = "(model " + q(m->name()) + " id " + q(m->id()) + " encid " + q(m->encapsulationId()) + ")\n";
    std::vector<std::string> us;
    for (size_t i = 0; i < m->unitsCount(); ++i) {
        auto u = m->units(i);
        std::string l = "(units " + q(u->name()) + " id " + q(u->id()) + " " + imp(u);
        std::vector<std::string> ch;
        for (size_t k = 0; k < u->unitCount(); ++k) {
            std::string ref, pre, id; double ex, mu;
            u->unitAttributes(k, ref, pre, ex, mu, id);
            ch.push_back("(unit " + q(ref) + " " + q(pre) + " " + num(ex) + " " + num(mu) + " " + q(id) + ")");
        }
        std::sort(ch.begin(), ch.end());
        for (auto &x : ch) l += " " + x;
        us.push_back(l + ")");
    }
    std::sort(us.begin(), us.end());
    for (auto &x : us) r += x + "\n";
    std::vector<std::string> cs; std::set<std::string> eq;
    std::vector<std::pair<std::string, ComponentPtr>> kids;
    for (size_t i = 0; i < m->componentCount(); ++i) kids.push_back({m->component(i)->name(), m->component(i)});
    std::stable_sort(kids.begin(), kids.end(), [](auto &a, auto &b) { return a.first < b.first; });
    for (auto &k : kids) dumpComponent(k.second, cs, eq, "");
    for (auto &x : cs) r += x + "\n";
    for (auto &x : eq) r += "(equiv " + x + ")\n";
    return r;
}
static std::string issues(const LoggerPtr &l)
{
    std::string r;
    for (size_t i = 0; i < l->issueCount(); ++i) r += std::to_string(int(l->issue(i)->level())) + " R" + std::to_string(int(l->issue(i)->referenceRule())) + " " + l->issue(i)->description() + "\n";
    return r;
}
