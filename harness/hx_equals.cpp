// Engine `equals` (C10): (eq <kind> A B) -> E<a.equals(b)><b.equals(a)><a.equals(a)><b.equals(b)>
#include "hx_entity.h"
using namespace libcellml;

static char bit(bool b) { return b ? '1' : '0'; }

static std::string run(const hx::Sexp &e)
{
    std::string kind = e[1].atom;
    hxe::shareImportSources() = e.size() > 4 && e[4].atom == "share";
    EntityPtr a, b;
    if (kind == "units") { a = hxe::buildUnits(e[2]); b = hxe::buildUnits(e[3]); }
    else if (kind == "var") { a = hxe::buildVariable(e[2]); b = hxe::buildVariable(e[3]); }
    else if (kind == "reset") { a = hxe::buildReset(e[2]); b = hxe::buildReset(e[3]); }
    else if (kind == "comp") { a = hxe::buildComponent(e[2]); b = hxe::buildComponent(e[3]); }
    else if (kind == "model") { a = hxe::buildModel(e[2]); b = hxe::buildModel(e[3]); }
    else return "bad-line";
    std::string r = "E";
    r.push_back(bit(a->equals(b))); r.push_back(bit(b->equals(a))); r.push_back(bit(a->equals(a))); r.push_back(bit(b->equals(b)));
    return r;
}

int main()
{
    std::string line;
    while (std::getline(std::cin, line)) {
        hx::Sexp e;
        size_t i = 0;
        if (hx::parseSexp(line, i, e) && e.head() == "validate" && e.size() == 2) {
            // (validate <model>): the model is built through the API (names may repeat anywhere in the tree); the rules of the error issues
            std::string r = hx::forked([&]() {
                auto m = hxe::buildModel(e[1]);
                auto v = Validator::create();
                v->validateModel(m);
                std::string out = "rules";
                for (size_t k = 0; k < v->errorCount(); ++k) out += " " + std::to_string(int(v->error(k)->referenceRule()));
                return out;
            });
            printf("%s\n", r.c_str());
            fflush(stdout);
            continue;
        }
        if (e.head() != "eq" || e.size() < 4) { puts("bad-line"); continue; }
        std::string r = hx::forked([&]() { return run(e); });
        printf("%s\n", r.c_str());
        fflush(stdout);
    }
    return 0;
}
