// hx_roundtrip <file> [permissive]: strict-parse the document (M0), print it, strict-parse the result (M1), print again.
// Prints canonical dumps of M0 and M1 (child order insignificant: sorted), issue lists, and whether the two printed
// texts are equal.   =====D0 / =====I0 / =====T1 / =====D1 / =====I1 / =====T2
#include <algorithm>
#include <fstream>
#include <iostream>
#include <regex>
#include <set>
#include <sstream>
#include "hx_common.h"
#include "libcellml/module/libcellml"
#include "hx_dump.h"
namespace libcellml { std::string escapeAttributeValue(const std::string &value); }

int main(int argc, char **argv)
{
    if (argc < 2) return 2;
    if (std::string(argv[1]) == "escape") {
        // lines of hex strings -> hex of escapeAttributeValue, and whether a model importing from that URL prints
        std::string line;
        while (std::getline(std::cin, line)) {
            std::string s;
            hx::fromHex(line.size() > 1 ? line.substr(1) : std::string("-"), s);
            auto m = Model::create("m");
            auto u = Units::create("u");
            auto imp = ImportSource::create();
            imp->setUrl(s);
            u->setImportSource(imp);
            u->setImportReference("r");
            m->addUnits(u);
            auto text = Printer::create()->printModel(m);
            std::string back = "<none>";
            if (!text.empty()) {
                auto m2 = Parser::create(true)->parseModel(text);
                if (m2->unitsCount() == 1 && m2->units(0)->isImport()) back = m2->units(0)->importSource()->url();
            }
            std::cout << hx::H(escapeAttributeValue(s)) << " printed=" << (text.empty() ? 0 : 1) << " back=" << (back == s ? 1 : 0) << "\n";
        }
        return 0;
    }
    std::ifstream f(argv[1]);
    std::stringstream ss; ss << f.rdbuf();
    bool strict = !(argc > 2 && std::string(argv[2]) == "permissive");
    auto p0 = Parser::create(strict);
    auto m0 = p0->parseModel(ss.str());
    auto v0 = Validator::create();
    v0->validateModel(m0);
    std::cout << "=====D0\n" << dump(m0) << "=====I0\n" << issues(p0) << "=====V0\n" << v0->errorCount() << "\n" << issues(v0);
    auto printer = Printer::create();
    auto t1 = printer->printModel(m0);
    std::cout << "=====T1\n" << t1 << "\n=====PI\n" << issues(printer);
    auto p1 = Parser::create(true);
    auto m1 = p1->parseModel(t1);
    std::cout << "=====D1\n" << dump(m1) << "=====I1\n" << issues(p1);
    auto t2 = Printer::create()->printModel(m1);
    std::cout << "=====T2\n" << (t1 == t2 ? "same" : "DIFFERENT") << "\n";
    if (t1 != t2) std::cout << t2 << "\n";
    return 0;
}
