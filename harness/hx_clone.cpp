// Engine `clone` (C11): (clone <kind> X [(equivs (e <path> <idx> <path> <idx>)*)])
//   -> (r <dump of the clone>) (orig <dump of the original>) (info eq=<ab><ba> parent=<0|1> shared=<kinds,…> equivs=<ok|…>)
#include "hx_entity.h"
#include "utilities.h"
#include "commonutils.h"
#include <set>
using namespace libcellml;

static ComponentPtr compAt(const ModelPtr &m, const std::string &path)
{
    ComponentPtr c;
    std::stringstream ss(path);
    std::string item;
    bool first = true;
    while (std::getline(ss, item, '.')) {
        size_t i = size_t(atol(item.c_str()));
        c = first ? m->component(i) : c->component(i);
        first = false;
        if (c == nullptr) return nullptr;
    }
    return c;
}

// every object reachable from an entity, with its kind
typedef std::map<const void *, std::string> Objs;
static void reachUnits(const UnitsPtr &u, Objs &o) { if (u == nullptr) return; o[u.get()] = "units"; if (u->isImport()) o[u->importSource().get()] = "import"; }
static void reachVar(const VariablePtr &v, Objs &o) { if (v == nullptr) return; o[v.get()] = "variable"; reachUnits(v->units(), o); }
static void reachReset(const ResetPtr &r, Objs &o) { if (r == nullptr) return; o[r.get()] = "reset"; reachVar(r->variable(), o); reachVar(r->testVariable(), o); }
static void reachComp(const ComponentPtr &c, Objs &o)
{
    o[c.get()] = "component";
    if (c->isImport()) o[c->importSource().get()] = "import";
    for (size_t i = 0; i < c->variableCount(); ++i) reachVar(c->variable(i), o);
    for (size_t i = 0; i < c->resetCount(); ++i) reachReset(c->reset(i), o);
    for (size_t i = 0; i < c->componentCount(); ++i) reachComp(c->component(i), o);
}
static void reachModel(const ModelPtr &m, Objs &o)
{
    o[m.get()] = "model";
    for (size_t i = 0; i < m->unitsCount(); ++i) reachUnits(m->units(i), o);
    for (size_t i = 0; i < m->componentCount(); ++i) reachComp(m->component(i), o);
}

static void collectVars(const ComponentPtr &c, const std::string &path, std::vector<std::pair<std::string, VariablePtr>> &out)
{
    for (size_t i = 0; i < c->variableCount(); ++i) out.push_back({path + ":" + std::to_string(i), c->variable(i)});
    for (size_t k = 0; k < c->componentCount(); ++k) collectVars(c->component(k), path + "." + std::to_string(k), out);
}

// equivalences of a model as a sorted set of position pairs; "ESCAPE" if an equivalent variable lies outside the model
static std::string equivDump(const ModelPtr &m)
{
    std::vector<std::pair<std::string, VariablePtr>> vars;
    for (size_t c = 0; c < m->componentCount(); ++c) collectVars(m->component(c), std::to_string(c), vars);
    std::set<std::string> pairs;
    for (auto &v : vars) {
        for (size_t e = 0; e < v.second->equivalentVariableCount(); ++e) {
            auto w = v.second->equivalentVariable(e);
            std::string pos = "ESCAPE";
            for (auto &x : vars) if (x.second == w) pos = x.first;
            pairs.insert(v.first + "~" + pos + "[" + Variable::equivalenceMappingId(v.second, w) + "|" + Variable::equivalenceConnectionId(v.second, w) + "]");
        }
    }
    std::string r;
    for (auto &p : pairs) r += p + ";";
    return r;
}

static std::string info(const EntityPtr &a, const EntityPtr &b, const Objs &oa, const Objs &ob, bool parentNull, const std::string &equivs)
{
    std::string shared;
    std::set<std::string> kinds;
    for (auto &x : ob) if (oa.count(x.first) != 0) kinds.insert(x.second);
    for (auto &k : kinds) shared += k + ",";
    std::string r = "(info eq=";
    r += a->equals(b) ? "1" : "0";
    r += b->equals(a) ? "1" : "0";
    r += std::string(" parent=") + (parentNull ? "0" : "1") + " shared=" + (shared.empty() ? "-" : shared) + " equivs=" + equivs + ")";
    return r;
}

static std::string run(const hx::Sexp &e)
{
    std::string kind = e[1].atom;
    Objs oa, ob;
    if (kind == "units") {
        auto a = hxe::buildUnits(e[2]); auto b = a->clone();
        reachUnits(a, oa); reachUnits(b, ob);
        return "(r " + hxe::dumpUnits(b) + ") (orig " + hxe::dumpUnits(a) + ") " + info(a, b, oa, ob, b->parent() == nullptr, "ok");
    }
    if (kind == "var") {
        auto a = hxe::buildVariable(e[2]); auto b = a->clone();
        reachVar(a, oa); reachVar(b, ob);
        return "(r " + hxe::dumpVariable(b) + ") (orig " + hxe::dumpVariable(a) + ") " + info(a, b, oa, ob, b->parent() == nullptr, "ok");
    }
    if (kind == "reset") {
        auto a = hxe::buildReset(e[2]); auto b = a->clone();
        reachReset(a, oa); reachReset(b, ob);
        std::string first = "(r " + hxe::dumpReset(b, nullptr) + ") (orig " + hxe::dumpReset(a, nullptr) + ") ";
        // the same reset once its variables are owned by a component (a reset that lives in a model): the clone must not
        // reach the component's variables either; whatever it shares is added to the first clone's report
        auto owner = Component::create("owner");
        if (a->variable() != nullptr) owner->addVariable(a->variable());
        if (a->testVariable() != nullptr && a->testVariable() != a->variable()) owner->addVariable(a->testVariable());
        auto b2 = a->clone();
        Objs ob2;
        reachReset(b2, ob2);
        for (auto &x : ob2) if (oa.count(x.first) != 0) ob[x.first] = x.second;
        return first + info(a, b, oa, ob, b->parent() == nullptr && b2->parent() == nullptr, "ok");
    }
    if (kind == "comp") {
        // the component sits inside a parent so that "the clone has no parent" is not vacuous
        auto parent = Component::create("parent");
        auto a = hxe::buildComponent(e[2]);
        parent->addComponent(a);
        auto b = a->clone();
        reachComp(a, oa); reachComp(b, ob);
        return "(r " + hxe::dumpComponent(b) + ") (orig " + hxe::dumpComponent(a) + ") " + info(a, b, oa, ob, b->parent() == nullptr, "ok");
    }
    if (kind == "model") {
        auto a = hxe::buildModel(e[2]);
        a->linkUnits();       // what the parser does: variables that name units of the model hold the model's object
        if (e.size() > 3) {
            const auto &eq = e[3];
            for (size_t i = 1; i < eq.size(); ++i) {
                const auto &q = eq[i];
                auto c1 = compAt(a, q[1].atom), c2 = compAt(a, q[3].atom);
                if (c1 == nullptr || c2 == nullptr) return "bad-equiv";
                auto v1 = c1->variable(size_t(atol(q[2].atom.c_str()))), v2 = c2->variable(size_t(atol(q[4].atom.c_str())));
                if (v1 == nullptr || v2 == nullptr) return "bad-equiv";
                Variable::addEquivalence(v1, v2, q[5].text(), q[6].text());
            }
        }
        auto b = a->clone();
        reachModel(a, oa); reachModel(b, ob);
        std::string ea = equivDump(a), eb = equivDump(b);
        std::string eq = ea == eb ? (eb.find("ESCAPE") == std::string::npos ? "ok" : "escape") : "differ";
        return "(r " + hxe::dumpModel(b) + ") (orig " + hxe::dumpModel(a) + ") " + info(a, b, oa, ob, b->parent() == nullptr, eq);
    }
    return "bad-line";
}

int main()
{
    std::string line;
    while (std::getline(std::cin, line)) {
        hx::Sexp e;
        size_t i = 0;
        if (!hx::parseSexp(line, i, e) || e.head() != "clone" || e.size() < 3) { puts("bad-line"); continue; }
        std::string r = hx::forked([&]() { return run(e); });
        printf("%s\n", r.c_str());
        fflush(stdout);
    }
    return 0;
}
