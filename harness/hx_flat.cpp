// hx_flat: the real rebaseIndexStack / rebaseEquivalenceMap (src/utilities.cpp, not exported) on the lines read by the
// Lean engine `flatten`:  (rebase (s*) (o*) (d*))   (rebasemap (o*) (d*) (e (k*) (t*)...)...)
#include <iostream>
#include <map>
#include <vector>
#include "hx_common.h"
#include "libcellml/module/libcellml"
namespace libcellml {
using IndexStack = std::vector<size_t>;
using EquivalenceMap = std::map<IndexStack, std::vector<IndexStack>>;
IndexStack rebaseIndexStack(const IndexStack &stack, const IndexStack &originStack, const IndexStack &destinationStack);
EquivalenceMap rebaseEquivalenceMap(const EquivalenceMap &map, const IndexStack &originStack, const IndexStack &destinationStack);
}
using namespace libcellml;

static IndexStack stackOf(const hx::Sexp &s)
{
    IndexStack r;
    for (const auto &k : s.kids) r.push_back(size_t(std::stoull(k.atom)));
    return r;
}
static std::string show(const IndexStack &s)
{
    if (s.empty()) return "-";
    std::string r;
    for (size_t i = 0; i < s.size(); ++i) r += (i ? " " : "") + std::to_string(s[i]);
    return r;
}
int main()
{
    std::string line;
    while (std::getline(std::cin, line)) {
        hx::Sexp e;
        size_t pos = 0;
        if (!hx::parseSexp(line, pos, e) || e.isAtom || e.kids.empty()) { std::cout << "bad-line" << std::endl; continue; }
        const std::string &op = e[0].atom;
        if (op == "rebase" && e.kids.size() == 4) {
            std::cout << show(rebaseIndexStack(stackOf(e[1]), stackOf(e[2]), stackOf(e[3]))) << std::endl;
        } else if (op == "rebasemap" && e.kids.size() >= 3) {
            EquivalenceMap m;
            for (size_t i = 3; i < e.kids.size(); ++i) {
                std::vector<IndexStack> ts;
                for (size_t j = 2; j < e[i].kids.size(); ++j) ts.push_back(stackOf(e[i][j]));
                m.emplace(stackOf(e[i][1]), ts);
            }
            auto r = rebaseEquivalenceMap(m, stackOf(e[1]), stackOf(e[2]));
            std::string out;
            for (const auto &en : r) {
                if (!out.empty()) out += " ; ";
                out += show(en.first) + ": ";
                for (size_t j = 0; j < en.second.size(); ++j) out += (j ? " | " : "") + show(en.second[j]);
            }
            std::cout << (out.empty() ? "-" : out) << std::endl;
        } else {
            std::cout << "bad-line" << std::endl;
        }
    }
    return 0;
}
