// Shared helpers of the implementation-side harness (`hx_*`): wire format, forked execution.
#pragma once
#include <cstdio>
#include <cstdlib>
#include <cstring>
#include <iostream>
#include <sstream>
#include <string>
#include <vector>
#include <memory>
#include <unistd.h>
#include <sys/wait.h>

namespace hx {

inline std::string toHex(const std::string &s)
{
    if (s.empty()) return "-";
    static const char *d = "0123456789abcdef";
    std::string r;
    for (unsigned char c : s) { r.push_back(d[c >> 4]); r.push_back(d[c & 15]); }
    return r;
}

inline int hexVal(char c)
{
    if (c >= '0' && c <= '9') return c - '0';
    if (c >= 'a' && c <= 'f') return c - 'a' + 10;
    if (c >= 'A' && c <= 'F') return c - 'A' + 10;
    return -1;
}

inline bool fromHex(const std::string &h, std::string &out)
{
    out.clear();
    if (h == "-") return true;
    if (h.size() % 2) return false;
    for (size_t i = 0; i < h.size(); i += 2) {
        int a = hexVal(h[i]), b = hexVal(h[i + 1]);
        if (a < 0 || b < 0) return false;
        out.push_back(char(a * 16 + b));
    }
    return true;
}

inline std::vector<std::string> tokens(const std::string &line)
{
    std::vector<std::string> r;
    std::istringstream is(line);
    std::string t;
    while (is >> t) r.push_back(t);
    return r;
}

// S-expressions -----------------------------------------------------------------------------
struct Sexp {
    bool isAtom = true;
    std::string atom;
    std::vector<Sexp> kids;
    const Sexp &operator[](size_t i) const { return kids.at(i); }
    size_t size() const { return kids.size(); }
    std::string head() const { return (!isAtom && !kids.empty() && kids[0].isAtom) ? kids[0].atom : std::string(); }
    std::string str() const
    {
        if (isAtom) return atom;
        std::string r = "(";
        for (size_t i = 0; i < kids.size(); ++i) { if (i) r += " "; r += kids[i].str(); }
        return r + ")";
    }
    // hex-atom `#6162` -> "ab"; bare atom -> itself
    std::string text() const
    {
        if (isAtom && !atom.empty() && atom[0] == '#') { std::string o; fromHex(atom.substr(1).empty() ? "-" : atom.substr(1), o); return o; }
        return atom;
    }
};

inline bool parseSexp(const std::string &s, size_t &i, Sexp &out)
{
    while (i < s.size() && isspace((unsigned char)s[i])) ++i;
    if (i >= s.size()) return false;
    if (s[i] == '(') {
        ++i; out.isAtom = false; out.kids.clear();
        for (;;) {
            while (i < s.size() && isspace((unsigned char)s[i])) ++i;
            if (i >= s.size()) return false;
            if (s[i] == ')') { ++i; return true; }
            Sexp k;
            if (!parseSexp(s, i, k)) return false;
            out.kids.push_back(k);
        }
    }
    if (s[i] == ')') return false;
    size_t j = i;
    while (j < s.size() && !isspace((unsigned char)s[j]) && s[j] != '(' && s[j] != ')') ++j;
    out.isAtom = true; out.atom = s.substr(i, j - i); i = j;
    return true;
}

inline std::string H(const std::string &s) { return "#" + (s.empty() ? std::string() : toHex(s)); }

// run `f` in a forked child; returns its stdout text, or "CRASH <signal>" / "TIMEOUT".
template <class F>
std::string forked(F f, int timeoutSec = 20)
{
    int fd[2];
    if (pipe(fd) != 0) return "PIPEFAIL";
    fflush(stdout);
    pid_t pid = fork();
    if (pid == 0) {
        close(fd[0]);
        alarm(timeoutSec);
        std::string r;
        try { r = f(); } catch (const std::exception &e) { r = std::string("EXCEPTION ") + typeid(e).name(); } catch (...) { r = "EXCEPTION unknown"; }
        size_t off = 0;
        while (off < r.size()) { ssize_t n = write(fd[1], r.data() + off, r.size() - off); if (n <= 0) break; off += size_t(n); }
        close(fd[1]);
        _exit(0);
    }
    close(fd[1]);
    std::string out;
    char buf[4096];
    ssize_t n;
    while ((n = read(fd[0], buf, sizeof buf)) > 0) out.append(buf, size_t(n));
    close(fd[0]);
    int st = 0;
    waitpid(pid, &st, 0);
    if (WIFSIGNALED(st)) {
        if (WTERMSIG(st) == SIGALRM) return "TIMEOUT";
        return "CRASH signal=" + std::to_string(WTERMSIG(st));
    }
    if (WIFEXITED(st) && WEXITSTATUS(st) != 0) return "CRASH exit=" + std::to_string(WEXITSTATUS(st));
    return out;
}

} // namespace hx
