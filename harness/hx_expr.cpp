// Engine `expr` (C03): the real Generator::equationCode(ast, profile) on wire-format ASTs.
//   profile                       -> the flags and strings of the C and Python profiles read by expression printing (T-tie)
//   stdin lines: (expr <C|PY> <ast>)   ast: _ | (cn #hex) | (ci #hex) | (<TYPE> <ast> <ast>)
//   -> #hex of the generated text
#include "hx_common.h"
#include <map>
#define private public
#define protected public
#include "libcellml/module/libcellml"
#undef private
#undef protected

using namespace libcellml;
using T = AnalyserEquationAst::Type;

static const std::vector<std::pair<std::string, T>> kTypes = {
    {"EQUALITY", T::EQUALITY}, {"EQ", T::EQ}, {"NEQ", T::NEQ}, {"LT", T::LT}, {"LEQ", T::LEQ}, {"GT", T::GT}, {"GEQ", T::GEQ},
    {"AND", T::AND}, {"OR", T::OR}, {"XOR", T::XOR}, {"NOT", T::NOT}, {"PLUS", T::PLUS}, {"MINUS", T::MINUS}, {"TIMES", T::TIMES},
    {"DIVIDE", T::DIVIDE}, {"POWER", T::POWER}, {"ROOT", T::ROOT}, {"ABS", T::ABS}, {"EXP", T::EXP}, {"LN", T::LN}, {"LOG", T::LOG},
    {"CEILING", T::CEILING}, {"FLOOR", T::FLOOR}, {"MIN", T::MIN}, {"MAX", T::MAX}, {"REM", T::REM}, {"DIFF", T::DIFF},
    {"SIN", T::SIN}, {"COS", T::COS}, {"TAN", T::TAN}, {"SEC", T::SEC}, {"CSC", T::CSC}, {"COT", T::COT}, {"SINH", T::SINH},
    {"COSH", T::COSH}, {"TANH", T::TANH}, {"SECH", T::SECH}, {"CSCH", T::CSCH}, {"COTH", T::COTH}, {"ASIN", T::ASIN},
    {"ACOS", T::ACOS}, {"ATAN", T::ATAN}, {"ASEC", T::ASEC}, {"ACSC", T::ACSC}, {"ACOT", T::ACOT}, {"ASINH", T::ASINH},
    {"ACOSH", T::ACOSH}, {"ATANH", T::ATANH}, {"ASECH", T::ASECH}, {"ACSCH", T::ACSCH}, {"ACOTH", T::ACOTH},
    {"PIECEWISE", T::PIECEWISE}, {"PIECE", T::PIECE}, {"OTHERWISE", T::OTHERWISE}, {"CI", T::CI}, {"CN", T::CN},
    {"DEGREE", T::DEGREE}, {"LOGBASE", T::LOGBASE}, {"BVAR", T::BVAR}, {"TRUE", T::TRUE}, {"FALSE", T::FALSE}, {"E", T::E},
    {"PI", T::PI}, {"INF", T::INF}, {"NAN", T::NAN}};

static std::vector<VariablePtr> gKeep;

static AnalyserEquationAstPtr build(const hx::Sexp &e, const AnalyserEquationAstPtr &parent)
{
    if (e.isAtom) return nullptr;   // `_`
    auto a = AnalyserEquationAst::create();
    a->setParent(parent);
    std::string h = e.head(), s;
    if (h == "cn") {
        a->setType(T::CN);
        a->setValue(e[1].text());
        return a;
    }
    if (h == "ci") {
        a->setType(T::CI);
        auto v = Variable::create(e[1].text());
        gKeep.push_back(v);
        a->setVariable(v);
        return a;
    }
    bool ok = false;
    for (auto &kv : kTypes) if (kv.first == h) { a->setType(kv.second); ok = true; }
    if (!ok) return nullptr;
    if (e.size() > 1) a->setLeftChild(build(e[1], a));
    if (e.size() > 2) a->setRightChild(build(e[2], a));
    return a;
}

static void profile(const char *tag, const GeneratorProfilePtr &p)
{
    auto F = [&](const char *k, bool b) { printf("FLAG %s %s %d\n", tag, k, b ? 1 : 0); };
    auto S = [&](const char *k, const std::string &v) { printf("STR %s %s %s\n", tag, k, hx::H(v).c_str()); };
    F("hasEqOperator", p->hasEqOperator()); F("hasNeqOperator", p->hasNeqOperator()); F("hasLtOperator", p->hasLtOperator());
    F("hasLeqOperator", p->hasLeqOperator()); F("hasGtOperator", p->hasGtOperator()); F("hasGeqOperator", p->hasGeqOperator());
    F("hasAndOperator", p->hasAndOperator()); F("hasOrOperator", p->hasOrOperator()); F("hasXorOperator", p->hasXorOperator());
    F("hasNotOperator", p->hasNotOperator()); F("hasPowerOperator", p->hasPowerOperator());
    F("hasConditionalOperator", p->hasConditionalOperator());
    S("equalityString", p->equalityString()); S("eqString", p->eqString()); S("neqString", p->neqString()); S("ltString", p->ltString());
    S("leqString", p->leqString()); S("gtString", p->gtString()); S("geqString", p->geqString()); S("andString", p->andString());
    S("orString", p->orString()); S("xorString", p->xorString()); S("notString", p->notString()); S("plusString", p->plusString());
    S("minusString", p->minusString()); S("timesString", p->timesString()); S("divideString", p->divideString());
    S("powerString", p->powerString()); S("squareRootString", p->squareRootString()); S("squareString", p->squareString());
    S("naturalLogarithmString", p->naturalLogarithmString()); S("commonLogarithmString", p->commonLogarithmString());
    S("conditionalOperatorIfString", p->hasConditionalOperator() ? p->conditionalOperatorIfString() : p->piecewiseIfString());
    S("conditionalOperatorElseString", p->hasConditionalOperator() ? p->conditionalOperatorElseString() : p->piecewiseElseString());
    S("trueString", p->trueString()); S("falseString", p->falseString()); S("eString", p->eString()); S("piString", p->piString());
    S("infString", p->infString()); S("nanString", p->nanString());
    // one-/two-parameter functions, keyed by AST type name
    S("ABS", p->absoluteValueString()); S("EXP", p->exponentialString()); S("LN", p->naturalLogarithmString());
    S("CEILING", p->ceilingString()); S("FLOOR", p->floorString()); S("MIN", p->minString()); S("MAX", p->maxString()); S("REM", p->remString());
    S("SIN", p->sinString()); S("COS", p->cosString()); S("TAN", p->tanString()); S("SEC", p->secString()); S("CSC", p->cscString());
    S("COT", p->cotString()); S("SINH", p->sinhString()); S("COSH", p->coshString()); S("TANH", p->tanhString()); S("SECH", p->sechString());
    S("CSCH", p->cschString()); S("COTH", p->cothString()); S("ASIN", p->asinString()); S("ACOS", p->acosString()); S("ATAN", p->atanString());
    S("ASEC", p->asecString()); S("ACSC", p->acscString()); S("ACOT", p->acotString()); S("ASINH", p->asinhString()); S("ACOSH", p->acoshString());
    S("ATANH", p->atanhString()); S("ASECH", p->asechString()); S("ACSCH", p->acschString()); S("ACOTH", p->acothString());
}

static void helpers(const char *tag, const GeneratorProfilePtr &p)
{
    printf("HELPER %s eq %s\n", tag, hx::H(p->eqFunctionString()).c_str());
    printf("HELPER %s neq %s\n", tag, hx::H(p->neqFunctionString()).c_str());
    printf("HELPER %s lt %s\n", tag, hx::H(p->ltFunctionString()).c_str());
    printf("HELPER %s leq %s\n", tag, hx::H(p->leqFunctionString()).c_str());
    printf("HELPER %s gt %s\n", tag, hx::H(p->gtFunctionString()).c_str());
    printf("HELPER %s geq %s\n", tag, hx::H(p->geqFunctionString()).c_str());
    printf("HELPER %s and %s\n", tag, hx::H(p->andFunctionString()).c_str());
    printf("HELPER %s or %s\n", tag, hx::H(p->orFunctionString()).c_str());
    printf("HELPER %s xor %s\n", tag, hx::H(p->xorFunctionString()).c_str());
    printf("HELPER %s not %s\n", tag, hx::H(p->notFunctionString()).c_str());
    printf("HELPER %s min %s\n", tag, hx::H(p->minFunctionString()).c_str());
    printf("HELPER %s max %s\n", tag, hx::H(p->maxFunctionString()).c_str());
    printf("HELPER %s sec %s\n", tag, hx::H(p->secFunctionString()).c_str());
    printf("HELPER %s csc %s\n", tag, hx::H(p->cscFunctionString()).c_str());
    printf("HELPER %s cot %s\n", tag, hx::H(p->cotFunctionString()).c_str());
    printf("HELPER %s sech %s\n", tag, hx::H(p->sechFunctionString()).c_str());
    printf("HELPER %s csch %s\n", tag, hx::H(p->cschFunctionString()).c_str());
    printf("HELPER %s coth %s\n", tag, hx::H(p->cothFunctionString()).c_str());
    printf("HELPER %s asec %s\n", tag, hx::H(p->asecFunctionString()).c_str());
    printf("HELPER %s acsc %s\n", tag, hx::H(p->acscFunctionString()).c_str());
    printf("HELPER %s acot %s\n", tag, hx::H(p->acotFunctionString()).c_str());
    printf("HELPER %s asech %s\n", tag, hx::H(p->asechFunctionString()).c_str());
    printf("HELPER %s acsch %s\n", tag, hx::H(p->acschFunctionString()).c_str());
    printf("HELPER %s acoth %s\n", tag, hx::H(p->acothFunctionString()).c_str());
}

static void methods(const GeneratorProfilePtr &p)
{
    auto M = [&](const char *k, int o, int e, const std::string &i, const std::string &m) { printf("METHOD %s %d %d %s %s\n", k, o, e, hx::H(i).c_str(), hx::H(m).c_str()); };
    for (int o = 0; o < 2; ++o) for (int e = 0; e < 2; ++e) {
        M("initialiseVariables", o, e, p->interfaceInitialiseVariablesMethodString(o, e), p->implementationInitialiseVariablesMethodString(o, e));
        M("computeVariables", o, e, p->interfaceComputeVariablesMethodString(o, e), p->implementationComputeVariablesMethodString(o, e));
    }
    for (int e = 0; e < 2; ++e) M("computeRates", 1, e, p->interfaceComputeRatesMethodString(e), p->implementationComputeRatesMethodString(e));
    M("computeComputedConstants", 2, 2, p->interfaceComputeComputedConstantsMethodString(), p->implementationComputeComputedConstantsMethodString());
    M("createStatesArray", 1, 2, p->interfaceCreateStatesArrayMethodString(), p->implementationCreateStatesArrayMethodString());
    M("createVariablesArray", 2, 2, p->interfaceCreateVariablesArrayMethodString(), p->implementationCreateVariablesArrayMethodString());
    M("deleteArray", 2, 2, p->interfaceDeleteArrayMethodString(), p->implementationDeleteArrayMethodString());
}

int main(int argc, char **argv)
{
    auto pc = GeneratorProfile::create(GeneratorProfile::Profile::C);
    auto pp = GeneratorProfile::create(GeneratorProfile::Profile::PYTHON);
    if (argc > 1 && std::string(argv[1]) == "profile") {
        profile("C", pc);
        profile("PY", pp);
        return 0;
    }
    if (argc > 1 && std::string(argv[1]) == "methods") {
        methods(pc);
        return 0;
    }
    if (argc > 1 && std::string(argv[1]) == "helpers") {
        helpers("C", pc);
        helpers("PY", pp);
        return 0;
    }
    std::string line;
    while (std::getline(std::cin, line)) {
        hx::Sexp e;
        size_t i0 = 0;
        if (!hx::parseSexp(line, i0, e) || e.isAtom || e.head() != "expr" || e.size() < 3) { puts("bad-line"); continue; }
        gKeep.clear();
        auto holder = AnalyserEquationAst::create();   // a CI reads its parent's type: give the root one
        holder->setType(T::EQUALITY);
        auto ast = build(e[2], holder);
        if (ast == nullptr) { puts("bad-line"); continue; }
        auto prof = e[1].atom == "C" ? pc : pp;
        std::string out = hx::forked([&]() { return hx::H(Generator::equationCode(ast, prof)); });
        puts(out.c_str());
    }
    return 0;
}
