// hx_import: line-driven importer harness (C07, C06, C12).  One command per input line, one output line per command.
//   importer strict|permissive        a new Importer (the old one is dropped)
//   parse <path>                      the origin model := strict/permissive parse of the file (mode of the importer)
//   resolve <basedir>                 resolveImports(origin, basedir)      -> resolve <0|1> <issues>
//   unresolved                        origin->hasUnresolvedImports()       -> unresolved <0|1>
//   hasimports origin|flat
//   flatten                           flat := flattenModel(origin)         -> flatten null|model <issues>
//   dump origin|flat|lib<k>           canonical content dump (hex)
//   print origin|flat <path>          printModel to a file                 -> print <bytes>
//   validate origin|flat              -> validate <issues>
//   write <path> <hex> / remove <path> / clearlib / libcount / libkeys
// <issues> = n=<count> then per issue: [<level> R<rule> T<item type> <hex description>]
#include <fstream>
#include <iostream>
#include <sstream>
#include "hx_common.h"
#include "libcellml/module/libcellml"
#include "hx_dump.h"

static std::string issueList(const LoggerPtr &l)
{
    std::string r = "n=" + std::to_string(l->issueCount());
    for (size_t i = 0; i < l->issueCount(); ++i) {
        auto is = l->issue(i);
        r += " [" + std::to_string(int(is->level())) + " R" + std::to_string(int(is->referenceRule())) + " T" + std::to_string(int(is->item()->type())) + " " + hx::H(is->description()) + "]";
    }
    return r;
}

int main()
{
    ImporterPtr importer = Importer::create(true);
    bool strict = true;
    ModelPtr origin, flat;
    std::string line;
    while (std::getline(std::cin, line)) {
        auto t = hx::tokens(line);
        if (t.empty()) continue;
        const std::string &c = t[0];
        auto pick = [&](const std::string &w) -> ModelPtr {
            if (w == "origin") return origin;
            if (w == "flat") return flat;
            if (w.rfind("lib", 0) == 0) return importer->library(size_t(std::stoul(w.substr(3))));
            return nullptr;
        };
        if (c == "importer") {
            strict = t.size() < 2 || t[1] == "strict";
            importer = Importer::create(strict);
            std::cout << "ok" << std::endl;
        } else if (c == "parse") {
            std::ifstream f(t.at(1));
            std::stringstream b; b << f.rdbuf();
            auto p = Parser::create(strict);
            origin = p->parseModel(b.str());
            std::cout << "parsed errors=" << p->errorCount() << std::endl;
        } else if (c == "resolve") {
            bool ok = importer->resolveImports(origin, t.size() > 1 ? t[1] : std::string());
            std::cout << "resolve " << (ok ? 1 : 0) << " " << issueList(importer) << std::endl;
        } else if (c == "unresolved") {
            std::cout << "unresolved " << (origin->hasUnresolvedImports() ? 1 : 0) << std::endl;
        } else if (c == "hasimports") {
            auto m = pick(t.at(1));
            std::cout << "hasimports " << (m == nullptr ? "null" : (m->hasImports() ? "1" : "0")) << std::endl;
        } else if (c == "flatten") {
            flat = importer->flattenModel(origin);
            std::cout << "flatten " << (flat == nullptr ? "null" : "model") << " " << issueList(importer) << std::endl;
        } else if (c == "dump") {
            auto m = pick(t.at(1));
            std::cout << "dump " << hx::H(dump(m)) << std::endl;
        } else if (c == "print") {
            auto m = pick(t.at(1));
            std::string s = m == nullptr ? std::string() : Printer::create()->printModel(m);
            std::ofstream f(t.at(2)); f << s;
            std::cout << "print " << s.size() << std::endl;
        } else if (c == "validate") {
            auto m = pick(t.at(1));
            auto v = Validator::create();
            v->validateModel(m);
            std::cout << "validate " << issueList(v) << std::endl;
        } else if (c == "write") {
            std::string s; hx::fromHex(t.at(2), s);
            std::ofstream f(t.at(1)); f << s;
            std::cout << "ok" << std::endl;
        } else if (c == "remove") {
            std::remove(t.at(1).c_str());
            std::cout << "ok" << std::endl;
        } else if (c == "clearlib") {
            importer->removeAllModels();
            std::cout << "ok" << std::endl;
        } else if (c == "libcount") {
            std::cout << "libcount " << importer->libraryCount() << std::endl;
        } else if (c == "libkeys") {
            std::string r = "libkeys";
            for (size_t i = 0; i < importer->libraryCount(); ++i) r += " " + hx::H(importer->key(i));
            std::cout << r << std::endl;
        } else {
            std::cout << "bad-op" << std::endl;
        }
    }
    return 0;
}
