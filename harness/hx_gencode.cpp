// hx_gencode <file.cellml> <C|PY>: parse, validate, analyse, generate.  Prints
//   =====INFO   (validator / analyser issue counts, model type, variables and equations of the analysed model)
//   =====IFACE  interface code      =====IMPL  implementation code
// (used by the C03 execution oracle and by C05 / C17)
#include <fstream>
#include <iostream>
#include <sstream>
#include "hx_common.h"
#include "libcellml/module/libcellml"
using namespace libcellml;
using T = AnalyserEquationAst::Type;

static const char *typeName(T t)
{
    static const std::vector<std::pair<T, const char *>> k = {
        {T::EQUALITY, "EQUALITY"}, {T::EQ, "EQ"}, {T::NEQ, "NEQ"}, {T::LT, "LT"}, {T::LEQ, "LEQ"}, {T::GT, "GT"}, {T::GEQ, "GEQ"}, {T::AND, "AND"}, {T::OR, "OR"},
        {T::XOR, "XOR"}, {T::NOT, "NOT"}, {T::PLUS, "PLUS"}, {T::MINUS, "MINUS"}, {T::TIMES, "TIMES"}, {T::DIVIDE, "DIVIDE"}, {T::POWER, "POWER"}, {T::ROOT, "ROOT"},
        {T::ABS, "ABS"}, {T::EXP, "EXP"}, {T::LN, "LN"}, {T::LOG, "LOG"}, {T::CEILING, "CEILING"}, {T::FLOOR, "FLOOR"}, {T::MIN, "MIN"}, {T::MAX, "MAX"}, {T::REM, "REM"},
        {T::DIFF, "DIFF"}, {T::SIN, "SIN"}, {T::COS, "COS"}, {T::TAN, "TAN"}, {T::SEC, "SEC"}, {T::CSC, "CSC"}, {T::COT, "COT"}, {T::SINH, "SINH"}, {T::COSH, "COSH"},
        {T::TANH, "TANH"}, {T::SECH, "SECH"}, {T::CSCH, "CSCH"}, {T::COTH, "COTH"}, {T::ASIN, "ASIN"}, {T::ACOS, "ACOS"}, {T::ATAN, "ATAN"}, {T::ASEC, "ASEC"},
        {T::ACSC, "ACSC"}, {T::ACOT, "ACOT"}, {T::ASINH, "ASINH"}, {T::ACOSH, "ACOSH"}, {T::ATANH, "ATANH"}, {T::ASECH, "ASECH"}, {T::ACSCH, "ACSCH"}, {T::ACOTH, "ACOTH"},
        {T::PIECEWISE, "PIECEWISE"}, {T::PIECE, "PIECE"}, {T::OTHERWISE, "OTHERWISE"}, {T::CI, "CI"}, {T::CN, "CN"}, {T::DEGREE, "DEGREE"}, {T::LOGBASE, "LOGBASE"},
        {T::BVAR, "BVAR"}, {T::TRUE, "TRUE"}, {T::FALSE, "FALSE"}, {T::E, "E"}, {T::PI, "PI"}, {T::INF, "INF"}, {T::NAN, "NAN"}};
    for (auto &kv : k) if (kv.first == t) return kv.second;
    return "?";
}

static std::string dumpAst(const AnalyserEquationAstPtr &a)
{
    if (a == nullptr) return "_";
    if (a->type() == T::CN) return "(cn " + hx::H(a->value()) + ")";
    if (a->type() == T::CI) return "(ci " + hx::H(a->variable() ? a->variable()->name() : std::string()) + ")";
    return std::string("(") + typeName(a->type()) + " " + dumpAst(a->leftChild()) + " " + dumpAst(a->rightChild()) + ")";
}

static std::string var(const AnalyserVariablePtr &v)
{
    auto x = v->variable();
    return hx::H(x->name()) + " " + hx::H(x->units() ? x->units()->name() : std::string()) + " " + hx::H(std::dynamic_pointer_cast<Component>(x->parent())->name()) + " " + AnalyserVariable::typeAsString(v->type());
}
int main(int argc, char **argv)
{
    if (argc < 3) return 2;
    std::ifstream f(argv[1]);
    std::stringstream ss; ss << f.rdbuf();
    auto parser = Parser::create();
    auto model = parser->parseModel(ss.str());
    auto validator = Validator::create();
    validator->validateModel(model);
    auto analyser = Analyser::create();
    // external variables: <component> <variable> pairs; "+<component> <variable>" adds a dependency to the last one;
    // "@foreign" marks a variable of another model
    AnalyserExternalVariablePtr lastExt;
    ModelPtr foreign;
    for (int i = 3; i < argc; ++i) {
        std::string a = argv[i];
        if (a == "@foreign") {
            foreign = Model::create("other");
            auto fc = Component::create("fc");
            auto fv = Variable::create("fv");
            fv->setUnits("dimensionless");
            fc->addVariable(fv);
            foreign->addComponent(fc);
            analyser->addExternalVariable(AnalyserExternalVariable::create(fv));
            continue;
        }
        if (i + 1 >= argc) break;
        bool dep = a[0] == '+';
        auto c = model->component(dep ? a.substr(1) : a, true);
        auto v = (c != nullptr) ? c->variable(argv[i + 1]) : nullptr;
        ++i;
        if (v == nullptr) continue;
        if (dep) { if (lastExt != nullptr) lastExt->addDependency(v); }
        else { lastExt = AnalyserExternalVariable::create(v); analyser->addExternalVariable(lastExt); }
    }
    analyser->analyseModel(model);
    auto am = analyser->model();
    std::cout << "=====INFO\n";
    std::cout << "parser_errors " << parser->errorCount() << "\nvalidator_errors " << validator->errorCount() << "\nanalyser_errors " << analyser->errorCount()
              << "\nanalyser_warnings " << analyser->warningCount() << "\ntype " << AnalyserModel::typeAsString(am->type()) << "\n";
    for (size_t i = 0; i < analyser->errorCount(); ++i) std::cout << "error " << analyser->error(i)->description() << "\n";
    for (size_t i = 0; i < analyser->messageCount(); ++i) std::cout << "message " << analyser->message(i)->description() << "\n";
    if (am->voi() != nullptr) std::cout << "voi " << std::dynamic_pointer_cast<Component>(am->voi()->variable()->parent())->name() << " " << am->voi()->variable()->name() << "\n";
    if (am->voi() != nullptr) std::cout << "xvoi " << var(am->voi()) << "\n";
    for (size_t i = 0; i < am->stateCount(); ++i) std::cout << "xstate " << i << " " << var(am->state(i)) << "\n";
    for (size_t i = 0; i < am->variableCount(); ++i) std::cout << "xvariable " << i << " " << var(am->variable(i)) << "\n";
    for (size_t i = 0; i < am->equationCount(); ++i) std::cout << "ast " << i << " " << dumpAst(am->equation(i)->ast()) << "\n";
    for (size_t i = 0; i < am->equationCount(); ++i) {
        auto e = am->equation(i);
        std::cout << "xequation " << AnalyserEquation::typeAsString(e->type()) << " vars";
        for (size_t k = 0; k < e->variableCount(); ++k) { auto x = e->variable(k)->variable(); std::cout << " " << std::dynamic_pointer_cast<Component>(x->parent())->name() << "." << x->name(); }
        std::cout << " deps";
        for (size_t k = 0; k < e->dependencyCount(); ++k) {
            auto d = e->dependency(k);
            std::cout << " [";
            for (size_t j = 0; j < d->variableCount(); ++j) { auto x = d->variable(j)->variable(); std::cout << (j ? "," : "") << std::dynamic_pointer_cast<Component>(x->parent())->name() << "." << x->name(); }
            std::cout << "]";
        }
        std::cout << " nla " << e->nlaSiblingCount() << "\n";
    }
    // NLA systems: index of the system and of the sibling equations of every NLA equation
    for (size_t i = 0; i < am->equationCount(); ++i) {
        auto e = am->equation(i);
        if (e->type() != AnalyserEquation::Type::NLA) continue;
        std::cout << "xnlasys " << i << " " << e->nlaSystemIndex() << " sib";
        for (size_t k = 0; k < e->nlaSiblingCount(); ++k) {
            auto sb = e->nlaSibling(k);
            for (size_t j = 0; j < am->equationCount(); ++j) if (am->equation(j) == sb) std::cout << " " << j;
        }
        std::cout << "\n";
    }
    std::cout << "need";
    if (am->needEqFunction()) std::cout << " eq"; if (am->needNeqFunction()) std::cout << " neq"; if (am->needLtFunction()) std::cout << " lt";
    if (am->needLeqFunction()) std::cout << " leq"; if (am->needGtFunction()) std::cout << " gt"; if (am->needGeqFunction()) std::cout << " geq";
    if (am->needAndFunction()) std::cout << " and"; if (am->needOrFunction()) std::cout << " or"; if (am->needXorFunction()) std::cout << " xor";
    if (am->needNotFunction()) std::cout << " not"; if (am->needMinFunction()) std::cout << " min"; if (am->needMaxFunction()) std::cout << " max";
    if (am->needSecFunction()) std::cout << " sec"; if (am->needCscFunction()) std::cout << " csc"; if (am->needCotFunction()) std::cout << " cot";
    if (am->needSechFunction()) std::cout << " sech"; if (am->needCschFunction()) std::cout << " csch"; if (am->needCothFunction()) std::cout << " coth";
    if (am->needAsecFunction()) std::cout << " asec"; if (am->needAcscFunction()) std::cout << " acsc"; if (am->needAcotFunction()) std::cout << " acot";
    if (am->needAsechFunction()) std::cout << " asech"; if (am->needAcschFunction()) std::cout << " acsch"; if (am->needAcothFunction()) std::cout << " acoth";
    std::cout << "\nexternals " << am->hasExternalVariables() << "\n";
    for (size_t i = 0; i < am->stateCount(); ++i) { auto v = am->state(i); std::cout << "state " << i << " " << std::dynamic_pointer_cast<Component>(v->variable()->parent())->name() << " " << v->variable()->name() << "\n"; }
    for (size_t i = 0; i < am->variableCount(); ++i) { auto v = am->variable(i); std::cout << "variable " << i << " " << std::dynamic_pointer_cast<Component>(v->variable()->parent())->name() << " " << v->variable()->name() << " " << AnalyserVariable::typeAsString(v->type()) << "\n"; }
    for (size_t i = 0; i < am->equationCount(); ++i) { auto e = am->equation(i); std::cout << "equation " << i << " " << AnalyserEquation::typeAsString(e->type()) << " deps " << e->dependencyCount() << " vars " << e->variableCount() << "\n"; }
    auto gen = Generator::create();
    gen->setModel(am);
    if (std::string(argv[2]) == "PY") gen->setProfile(GeneratorProfile::create(GeneratorProfile::Profile::PYTHON));
    std::cout << "=====IFACE\n" << gen->interfaceCode() << "=====IMPL\n" << gen->implementationCode();
    return 0;
}
