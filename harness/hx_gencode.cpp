// hx_gencode <file.cellml> <C|PY>: parse, validate, analyse, generate.  Prints
//   =====INFO   (validator / analyser issue counts, model type, variables and equations of the analysed model)
//   =====IFACE  interface code      =====IMPL  implementation code
// (used by the C03 execution oracle and by C05 / C17)
#include <fstream>
#include <iostream>
#include <sstream>
#include "libcellml/module/libcellml"
using namespace libcellml;
int main(int argc, char **argv)
{
    if (argc < 3) return 2;
    std::ifstream f(argv[1]);
    std::stringstream ss; ss << f.rdbuf();
    auto parser = Parser::create();
    auto model = parser->parseModel(ss.str());
    auto validator = Validator::create();
    validator->validateModel(model);
    auto analyser = Analyser::create();
    analyser->analyseModel(model);
    auto am = analyser->model();
    std::cout << "=====INFO\n";
    std::cout << "parser_errors " << parser->errorCount() << "\nvalidator_errors " << validator->errorCount() << "\nanalyser_errors " << analyser->errorCount()
              << "\nanalyser_warnings " << analyser->warningCount() << "\ntype " << AnalyserModel::typeAsString(am->type()) << "\n";
    for (size_t i = 0; i < analyser->errorCount(); ++i) std::cout << "error " << analyser->error(i)->description() << "\n";
    if (am->voi() != nullptr) std::cout << "voi " << std::dynamic_pointer_cast<Component>(am->voi()->variable()->parent())->name() << " " << am->voi()->variable()->name() << "\n";
    for (size_t i = 0; i < am->stateCount(); ++i) { auto v = am->state(i); std::cout << "state " << i << " " << std::dynamic_pointer_cast<Component>(v->variable()->parent())->name() << " " << v->variable()->name() << "\n"; }
    for (size_t i = 0; i < am->variableCount(); ++i) { auto v = am->variable(i); std::cout << "variable " << i << " " << std::dynamic_pointer_cast<Component>(v->variable()->parent())->name() << " " << v->variable()->name() << " " << AnalyserVariable::typeAsString(v->type()) << "\n"; }
    for (size_t i = 0; i < am->equationCount(); ++i) { auto e = am->equation(i); std::cout << "equation " << i << " " << AnalyserEquation::typeAsString(e->type()) << " deps " << e->dependencyCount() << " vars " << e->variableCount() << "\n"; }
    auto gen = Generator::create();
    gen->setModel(am);
    if (std::string(argv[2]) == "PY") gen->setProfile(GeneratorProfile::create(GeneratorProfile::Profile::PYTHON));
    std::cout << "=====IFACE\n" << gen->interfaceCode() << "=====IMPL\n" << gen->implementationCode();
    return 0;
}
