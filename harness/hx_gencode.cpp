// hx_gencode <file.cellml> <C|PY> <impl|iface>: parse, analyse, generate; prints the generated text (used by C03/C17 tooling)
#include <fstream>
#include <iostream>
#include <sstream>
#include "libcellml/module/libcellml"
using namespace libcellml;
int main(int argc, char **argv)
{
    if (argc < 4) return 2;
    std::ifstream f(argv[1]);
    std::stringstream ss; ss << f.rdbuf();
    auto parser = Parser::create();
    auto model = parser->parseModel(ss.str());
    auto analyser = Analyser::create();
    analyser->analyseModel(model);
    auto gen = Generator::create();
    gen->setModel(analyser->model());
    if (std::string(argv[2]) == "PY") gen->setProfile(GeneratorProfile::create(GeneratorProfile::Profile::PYTHON));
    std::cout << (std::string(argv[3]) == "impl" ? gen->implementationCode() : gen->interfaceCode());
    std::cerr << "issues " << analyser->issueCount() << " type " << int(analyser->model()->type()) << "\n";
    return 0;
}
