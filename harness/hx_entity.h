// Build real libCellML objects from the wire format of the value-level object model, and dump them back.
// (format: see lean/Cellml/Engine/Entity.lean)
#pragma once
#include "hx_common.h"
#include <map>
#include "libcellml/module/libcellml"

namespace hxe {
using namespace libcellml;

// When sharing is on, import sources with the same (id, url) are one ImportSource *object* (as the parser
// creates for the children of one <import> element); equality is by value, so this must not matter.
inline bool &shareImportSources() { static bool v = false; return v; }
inline std::map<std::pair<std::string, std::string>, ImportSourcePtr> &importSourcePool()
{
    static std::map<std::pair<std::string, std::string>, ImportSourcePtr> pool;
    return pool;
}

inline void applyImp(const hx::Sexp &e, const ImportedEntityPtr &ent)
{
    if (e.head() == "imp") {
        ImportSourcePtr src;
        auto key = std::make_pair(e[1].text(), e[2].text());
        if (shareImportSources() && importSourcePool().count(key) != 0) {
            src = importSourcePool()[key];
        } else {
            src = ImportSource::create();
            src->setId(e[1].text());
            src->setUrl(e[2].text());
            if (shareImportSources()) importSourcePool()[key] = src;
        }
        ent->setImportSource(src);
        ent->setImportReference(e[3].text());
    } else {
        ent->setImportReference(e[1].text());
    }
}

inline UnitsPtr buildUnits(const hx::Sexp &e)
{
    auto u = Units::create();
    u->setId(e[1].text());
    u->setName(e[2].text());
    applyImp(e[3], u);
    for (size_t i = 4; i < e.size(); ++i) {
        const auto &c = e[i];
        // exponent / multiplier tokens are decimal numbers
        u->addUnit(c[1].text(), c[2].text(), atof(c[4].text().c_str()), atof(c[5].text().c_str()), c[3].text());
    }
    return u;
}

inline Variable::InterfaceType ifaceOf(const std::string &s, bool &valid)
{
    valid = true;
    if (s == "none") return Variable::InterfaceType::NONE;
    if (s == "public") return Variable::InterfaceType::PUBLIC;
    if (s == "private") return Variable::InterfaceType::PRIVATE;
    if (s == "public_and_private") return Variable::InterfaceType::PUBLIC_AND_PRIVATE;
    valid = false;
    return Variable::InterfaceType::NONE;
}

inline VariablePtr buildVariable(const hx::Sexp &e)
{
    auto v = Variable::create();
    v->setId(e[1].text());
    v->setName(e[2].text());
    v->setInitialValue(e[3].text());
    v->setInterfaceType(e[4].text());
    if (e[5].head() == "units") v->setUnits(buildUnits(e[5]));
    return v;
}

inline ResetPtr buildReset(const hx::Sexp &e)
{
    auto r = Reset::create();
    r->setId(e[1].text());
    r->setOrder(atoi(e[2].atom.c_str()));
    r->setResetValue(e[3].text());
    r->setResetValueId(e[4].text());
    r->setTestValue(e[5].text());
    r->setTestValueId(e[6].text());
    if (e[7].head() == "var") r->setVariable(buildVariable(e[7]));
    if (e[8].head() == "var") r->setTestVariable(buildVariable(e[8]));
    return r;
}

inline ComponentPtr buildComponent(const hx::Sexp &e)
{
    auto c = Component::create();
    c->setId(e[1].text());
    c->setName(e[2].text());
    c->setEncapsulationId(e[3].text());
    c->setMath(e[4].text());
    applyImp(e[5], c);
    for (size_t i = 1; i < e[6].size(); ++i) c->addVariable(buildVariable(e[6][i]));
    for (size_t i = 1; i < e[7].size(); ++i) c->addReset(buildReset(e[7][i]));
    for (size_t i = 1; i < e[8].size(); ++i) c->addComponent(buildComponent(e[8][i]));
    return c;
}

inline ModelPtr buildModel(const hx::Sexp &e)
{
    auto m = Model::create();
    m->setId(e[1].text());
    m->setName(e[2].text());
    m->setEncapsulationId(e[3].text());
    for (size_t i = 1; i < e[4].size(); ++i) m->addUnits(buildUnits(e[4][i]));
    for (size_t i = 1; i < e[5].size(); ++i) m->addComponent(buildComponent(e[5][i]));
    return m;
}

} // namespace hxe
