// Build real libCellML objects from the wire format of the value-level object model, and dump them back.
// (format: see lean/Cellml/Engine/Entity.lean)
#pragma once
#include "hx_common.h"
#include <map>
#include "libcellml/module/libcellml"

namespace hxe {
using namespace libcellml;

// When sharing is on, import sources with the same (id, url) are one ImportSource *object* (as the parser
// creates for the children of one <import> element); equality is by value, so this must not matter.
inline bool &shareImportSources() { static bool v = false; return v; }
inline std::map<std::pair<std::string, std::string>, ImportSourcePtr> &importSourcePool()
{
    static std::map<std::pair<std::string, std::string>, ImportSourcePtr> pool;
    return pool;
}

inline void applyImp(const hx::Sexp &e, const ImportedEntityPtr &ent)
{
    if (e.head() == "imp") {
        ImportSourcePtr src;
        auto key = std::make_pair(e[1].text(), e[2].text());
        if (shareImportSources() && importSourcePool().count(key) != 0) {
            src = importSourcePool()[key];
        } else {
            src = ImportSource::create();
            src->setId(e[1].text());
            src->setUrl(e[2].text());
            if (shareImportSources()) importSourcePool()[key] = src;
        }
        ent->setImportSource(src);
        ent->setImportReference(e[3].text());
    } else {
        ent->setImportReference(e[1].text());
    }
}

inline UnitsPtr buildUnits(const hx::Sexp &e)
{
    auto u = Units::create();
    u->setId(e[1].text());
    u->setName(e[2].text());
    applyImp(e[3], u);
    for (size_t i = 4; i < e.size(); ++i) {
        const auto &c = e[i];
        // exponent / multiplier tokens are decimal numbers
        u->addUnit(c[1].text(), c[2].text(), atof(c[4].text().c_str()), atof(c[5].text().c_str()), c[3].text());
    }
    return u;
}

inline Variable::InterfaceType ifaceOf(const std::string &s, bool &valid)
{
    valid = true;
    if (s == "none") return Variable::InterfaceType::NONE;
    if (s == "public") return Variable::InterfaceType::PUBLIC;
    if (s == "private") return Variable::InterfaceType::PRIVATE;
    if (s == "public_and_private") return Variable::InterfaceType::PUBLIC_AND_PRIVATE;
    valid = false;
    return Variable::InterfaceType::NONE;
}

inline VariablePtr buildVariable(const hx::Sexp &e)
{
    auto v = Variable::create();
    v->setId(e[1].text());
    v->setName(e[2].text());
    v->setInitialValue(e[3].text());
    v->setInterfaceType(e[4].text());
    if (e[5].head() == "units") v->setUnits(buildUnits(e[5]));
    return v;
}

inline ResetPtr buildReset(const hx::Sexp &e, const ComponentPtr &owner = nullptr)
{
    auto r = Reset::create();
    r->setId(e[1].text());
    if (e[2].atom != "none") r->setOrder(atoi(e[2].atom.c_str()));
    r->setResetValue(e[3].text());
    r->setResetValueId(e[4].text());
    r->setTestValue(e[5].text());
    r->setTestValueId(e[6].text());
    if (e[7].head() == "var") r->setVariable(buildVariable(e[7]));
    if (e[8].head() == "var") r->setTestVariable(buildVariable(e[8]));
    if (owner != nullptr && e[7].head() == "own") r->setVariable(owner->variable(size_t(atol(e[7][1].atom.c_str()))));
    if (owner != nullptr && e[8].head() == "own") r->setTestVariable(owner->variable(size_t(atol(e[8][1].atom.c_str()))));
    return r;
}

inline ComponentPtr buildComponent(const hx::Sexp &e)
{
    auto c = Component::create();
    c->setId(e[1].text());
    c->setName(e[2].text());
    c->setEncapsulationId(e[3].text());
    c->setMath(e[4].text());
    applyImp(e[5], c);
    for (size_t i = 1; i < e[6].size(); ++i) c->addVariable(buildVariable(e[6][i]));
    for (size_t i = 1; i < e[7].size(); ++i) c->addReset(buildReset(e[7][i], c));
    for (size_t i = 1; i < e[8].size(); ++i) c->addComponent(buildComponent(e[8][i]));
    return c;
}

inline ModelPtr buildModel(const hx::Sexp &e)
{
    auto m = Model::create();
    m->setId(e[1].text());
    m->setName(e[2].text());
    m->setEncapsulationId(e[3].text());
    for (size_t i = 1; i < e[4].size(); ++i) m->addUnits(buildUnits(e[4][i]));
    for (size_t i = 1; i < e[5].size(); ++i) m->addComponent(buildComponent(e[5][i]));
    return m;
}

// ---- dump real objects back to the wire format ------------------------------------------------------------
inline std::string dumpNum(double d)
{
    char b[64];
    snprintf(b, sizeof b, "%.17g", d);
    return b;
}

template <class P>
inline std::string dumpImp(const P &e)
{
    if (e->isImport()) return "(imp " + hx::H(e->importSource()->id()) + " " + hx::H(e->importSource()->url()) + " " + hx::H(e->importReference()) + ")";
    return "(noimp " + hx::H(e->importReference()) + ")";
}

inline std::string dumpUnits(const UnitsPtr &u)
{
    std::string r = "(units " + hx::H(u->id()) + " " + hx::H(u->name()) + " " + dumpImp(u);
    for (size_t i = 0; i < u->unitCount(); ++i) {
        std::string ref, pfx, id;
        double e, m;
        u->unitAttributes(i, ref, pfx, e, m, id);
        r += " (unit " + hx::H(ref) + " " + hx::H(pfx) + " " + hx::H(id) + " " + hx::H(dumpNum(e)) + " " + hx::H(dumpNum(m)) + ")";
    }
    return r + ")";
}

inline std::string dumpVariable(const VariablePtr &v)
{
    return "(var " + hx::H(v->id()) + " " + hx::H(v->name()) + " " + hx::H(v->initialValue()) + " " + hx::H(v->interfaceType()) + " "
           + (v->units() == nullptr ? std::string("(nounits)") : dumpUnits(v->units())) + ")";
}

inline std::string dumpVarRef(const VariablePtr &v, const ComponentPtr &owner)
{
    if (v == nullptr) return "(novar)";
    if (owner != nullptr) for (size_t i = 0; i < owner->variableCount(); ++i) if (owner->variable(i) == v) return "(own " + std::to_string(i) + ")";
    return dumpVariable(v);
}

inline std::string dumpReset(const ResetPtr &r, const ComponentPtr &owner)
{
    return "(reset " + hx::H(r->id()) + " " + (r->isOrderSet() ? std::to_string(r->order()) : std::string("none")) + " " + hx::H(r->resetValue()) + " " + hx::H(r->resetValueId()) + " "
           + hx::H(r->testValue()) + " " + hx::H(r->testValueId()) + " " + dumpVarRef(r->variable(), owner) + " " + dumpVarRef(r->testVariable(), owner) + ")";
}

inline std::string dumpComponent(const ComponentPtr &c)
{
    std::string r = "(comp " + hx::H(c->id()) + " " + hx::H(c->name()) + " " + hx::H(c->encapsulationId()) + " " + hx::H(c->math()) + " " + dumpImp(c) + " (vars";
    for (size_t i = 0; i < c->variableCount(); ++i) r += " " + dumpVariable(c->variable(i));
    r += ") (resets";
    for (size_t i = 0; i < c->resetCount(); ++i) r += " " + dumpReset(c->reset(i), c);
    r += ") (kids";
    for (size_t i = 0; i < c->componentCount(); ++i) r += " " + dumpComponent(c->component(i));
    return r + "))";
}

inline std::string dumpModel(const ModelPtr &m)
{
    std::string r = "(model " + hx::H(m->id()) + " " + hx::H(m->name()) + " " + hx::H(m->encapsulationId()) + " (units";
    for (size_t i = 0; i < m->unitsCount(); ++i) r += " " + dumpUnits(m->units(i));
    r += ") (comps";
    for (size_t i = 0; i < m->componentCount(); ++i) r += " " + dumpComponent(m->component(i));
    return r + "))";
}

} // namespace hxe
