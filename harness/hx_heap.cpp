// Engine `heap` (C09): API histories over a fixed universe of 12 real objects (see lean/Cellml/Engine/Heap.lean).
//   (heap OP*) -> (r (<result> <graph dump>)*)
#include "hx_common.h"
#include "libcellml/module/libcellml"
#include "utilities.h"
#include "commonutils.h"
using namespace libcellml;

static const size_t N = 12;
struct Universe {
    ModelPtr m[2];
    ComponentPtr c[3];
    VariablePtr v[3];
    UnitsPtr u[2];
    ResetPtr r[2];
    std::vector<const void *> addr;
};

static Universe make()
{
    Universe U;
    U.m[0] = Model::create("m0"); U.m[1] = Model::create("m1");
    U.c[0] = Component::create("a"); U.c[1] = Component::create("b"); U.c[2] = Component::create("b");
    U.v[0] = Variable::create("x"); U.v[1] = Variable::create("y"); U.v[2] = Variable::create("y");
    U.u[0] = Units::create("u"); U.u[1] = Units::create("u");
    U.r[0] = Reset::create(); U.r[1] = Reset::create();
    U.r[0]->setOrder(1); U.r[1]->setOrder(1);
    U.addr = {U.m[0].get(), U.m[1].get(), U.c[0].get(), U.c[1].get(), U.c[2].get(), U.v[0].get(), U.v[1].get(), U.v[2].get(),
              U.u[0].get(), U.u[1].get(), U.r[0].get(), U.r[1].get()};
    return U;
}

static std::string idOf(const Universe &U, const void *p)
{
    if (p == nullptr) return "-";
    for (size_t i = 0; i < U.addr.size(); ++i) if (U.addr[i] == p) return std::to_string(i);
    return "?";
}

static ComponentEntityPtr entityOf(const Universe &U, size_t i)
{
    if (i < 2) return U.m[i];
    if (i < 5) return U.c[i - 2];
    return nullptr;
}
static ComponentPtr comp(const Universe &U, size_t i) { return (i >= 2 && i < 5) ? U.c[i - 2] : nullptr; }
static ModelPtr model(const Universe &U, size_t i) { return i < 2 ? U.m[i] : nullptr; }
static VariablePtr var(const Universe &U, size_t i) { return (i >= 5 && i < 8) ? U.v[i - 5] : nullptr; }
static UnitsPtr units(const Universe &U, size_t i) { return (i >= 8 && i < 10) ? U.u[i - 8] : nullptr; }
static ResetPtr reset(const Universe &U, size_t i) { return (i >= 10 && i < 12) ? U.r[i - 10] : nullptr; }

static std::string join(const std::vector<std::string> &v)
{
    std::string r;
    for (size_t i = 0; i < v.size(); ++i) { if (i) r += ","; r += v[i]; }
    return r;
}

static std::string dump(const Universe &U)
{
    std::string out;
    for (size_t i = 0; i < N; ++i) {
        std::string parent = "-";
        std::vector<std::string> cs, vs, rs, us, es;
        if (i < 2) {
            auto m = U.m[i];
            parent = idOf(U, m->parent().get());
            for (size_t k = 0; k < m->componentCount(); ++k) cs.push_back(idOf(U, m->component(k).get()));
            for (size_t k = 0; k < m->unitsCount(); ++k) us.push_back(idOf(U, m->units(k).get()));
        } else if (i < 5) {
            auto c = U.c[i - 2];
            parent = idOf(U, c->parent().get());
            for (size_t k = 0; k < c->componentCount(); ++k) cs.push_back(idOf(U, c->component(k).get()));
            for (size_t k = 0; k < c->variableCount(); ++k) vs.push_back(idOf(U, c->variable(k).get()));
            for (size_t k = 0; k < c->resetCount(); ++k) rs.push_back(idOf(U, c->reset(k).get()));
        } else if (i < 8) {
            auto v = U.v[i - 5];
            parent = idOf(U, v->parent().get());
            for (size_t k = 0; k < v->equivalentVariableCount(); ++k) es.push_back(idOf(U, v->equivalentVariable(k).get()));
        } else if (i < 10) {
            parent = idOf(U, U.u[i - 8]->parent().get());
        } else {
            parent = idOf(U, U.r[i - 10]->parent().get());
        }
        if (i) out += " | ";
        out += std::to_string(i) + ":" + parent + ":" + join(cs) + ":" + join(vs) + ":" + join(rs) + ":" + join(us) + ":" + join(es);
    }
    return out;
}

static size_t num(const hx::Sexp &s) { return size_t(atol(s.atom.c_str())); }

static bool apply(Universe &U, const hx::Sexp &op, bool &known)
{
    known = true;
    std::string h = op.head();
    if (h == "ac") { auto c = comp(U, num(op[1])); return c != nullptr && c->addComponent(comp(U, num(op[2]))); }
    if (h == "am") { auto m = model(U, num(op[1])); return m != nullptr && m->addComponent(comp(U, num(op[2]))); }
    if (h == "av") { auto c = comp(U, num(op[1])); return c != nullptr && c->addVariable(var(U, num(op[2]))); }
    if (h == "ar") { auto c = comp(U, num(op[1])); return c != nullptr && c->addReset(reset(U, num(op[2]))); }
    if (h == "au") { auto m = model(U, num(op[1])); return m != nullptr && m->addUnits(units(U, num(op[2]))); }
    if (h == "ri" || h == "rp" || h == "rn" || h == "ra") {
        size_t ci = num(op[1]);
        std::string k = op[2].atom;
        auto ce = entityOf(U, ci);
        auto c = comp(U, ci);
        auto m = model(U, ci);
        if (k == "comp") {
            if (ce == nullptr) return h == "ra";
            if (h == "ri") return ce->removeComponent(num(op[3]));
            if (h == "rp") return ce->removeComponent(comp(U, num(op[3])), false);
            if (h == "rn") return ce->removeComponent(op[3].text(), false);
            ce->removeAllComponents(); return true;
        }
        if (k == "var") {
            if (c == nullptr) return h == "ra";
            if (h == "ri") return c->removeVariable(num(op[3]));
            if (h == "rp") return c->removeVariable(var(U, num(op[3])));
            if (h == "rn") return c->removeVariable(op[3].text());
            c->removeAllVariables(); return true;
        }
        if (k == "reset") {
            if (c == nullptr) return h == "ra";
            if (h == "ri") return c->removeReset(num(op[3]));
            if (h == "rp") return c->removeReset(reset(U, num(op[3])));
            if (h == "rn") return false;
            c->removeAllResets(); return true;
        }
        if (k == "units") {
            if (m == nullptr) return h == "ra";
            if (h == "ri") return m->removeUnits(num(op[3]));
            if (h == "rp") return m->removeUnits(units(U, num(op[3])));
            if (h == "rn") return m->removeUnits(op[3].text());
            m->removeAllUnits(); return true;
        }
    }
    if (h == "ae") return Variable::addEquivalence(var(U, num(op[1])), var(U, num(op[2])));
    if (h == "re") return Variable::removeEquivalence(var(U, num(op[1])), var(U, num(op[2])));
    if (h == "rae") { auto v = var(U, num(op[1])); if (v != nullptr) v->removeAllEquivalences(); return true; }
    if (h == "rel") {
        // the owner drops its last reference to a variable that no component owns: the object dies (the weak entries that
        // point to it expire) and the identifier stands for a fresh variable of the same name
        size_t i = num(op[1]);
        auto v = var(U, i);
        if (v == nullptr || v->parent() != nullptr || v.use_count() != 2) return false;   // the universe and this copy are the only owners
        auto fresh = Variable::create(v->name());
        v = nullptr;
        U.v[i - 5] = fresh;
        U.addr[i] = fresh.get();
        return true;
    }
    if (h == "cl") {
        // Model::clone() / Component::clone() on whatever state the history has reached (equivalences with variables that
        // no component owns included): must return, and changes nothing
        size_t i = num(op[1]);
        if (i < 2) return U.m[i]->clone() != nullptr;
        auto c = comp(U, i);
        return c != nullptr && c->clone() != nullptr;
    }
    if (h == "rc") { auto ce = entityOf(U, num(op[1])); return ce != nullptr && ce->replaceComponent(num(op[2]), comp(U, num(op[3]))); }
    if (h == "ru") { auto m = model(U, num(op[1])); return m != nullptr && m->replaceUnits(num(op[2]), units(U, num(op[3]))); }
    known = false;
    return false;
}

int main()
{
    std::string line;
    while (std::getline(std::cin, line)) {
        hx::Sexp e;
        size_t i = 0;
        if (!hx::parseSexp(line, i, e) || e.head() != "heap") { puts("bad-line"); continue; }
        Universe U = make();
        std::string out = "(r";
        bool bad = false;
        for (size_t k = 1; k < e.size() && !bad; ++k) {
            bool known = true;
            bool r = apply(U, e[k], known);
            if (!known) { bad = true; break; }
            out += std::string(" (") + (r ? "1" : "0") + " " + dump(U) + ")";
        }
        puts(bad ? "bad-op" : (out + ")").c_str());
        fflush(stdout);
    }
    return 0;
}
