// Engine `logger` (C15): runs service scenarios on the real library with the logger trace hook on.
// Output (stdout), one record per observation:
//   L <loggerId> <ops...>      ops since the previous observation of that logger: a0/a1/a2 add(level), r<k> removeError, c removeAll
//   O <loggerId> <issueCount> <errorCount> <warningCount> <messageCount> <levels|-> E:<pos,...> W:<...> M:<...> oob=<0|1>
//   A <what>                   audit / oracle failure on the implementation (property's own oracle)
//   S <call> <result class>    statistics
#include "hx_common.h"
#include <fstream>
#include <map>
#include <set>
#include <algorithm>
#include <random>
#include <any>
#include <dirent.h>
#include <sys/stat.h>
// the harness reaches the private implementation structs of the library (layout is unaffected)
#define private public
#define protected public
#include "libcellml/module/libcellml"
#include "issue_p.h"
#undef private
#undef protected

namespace libcellml { extern void (*verifLoggerTrace)(const void *, int, size_t); }
using namespace libcellml;

struct TraceOp { const void *impl; int op; size_t arg; };
static std::vector<TraceOp> gTrace;
static void traceCb(const void *impl, int op, size_t arg) { gTrace.push_back({impl, op, arg}); }

static std::map<const void *, int> gIds;
static std::map<const void *, size_t> gCursor; // not used: trace is drained per observation
static int gNext = 0;

static int loggerId(const Logger *l)
{
    const void *impl = l->verifImpl();
    auto it = gIds.find(impl);
    if (it == gIds.end()) it = gIds.insert({impl, gNext++}).first;
    return it->second;
}

// call right after X::create(): operations recorded earlier under the same address belong to a
// destroyed (library-internal) logger whose storage has been reused
template <class P>
static P adopt(P l)
{
    const void *impl = l->verifImpl();
    std::vector<TraceOp> rest;
    for (auto &t : gTrace) if (t.impl != impl) rest.push_back(t);
    gTrace.swap(rest);
    gIds.erase(impl);
    loggerId(l.get());
    return l;
}

static void forget(const Logger *l) { gIds.erase(l->verifImpl()); }

static size_t gIssuesAudited = 0, gObs = 0;

static void auditIssue(const IssuePtr &is, const char *where)
{
    ++gIssuesAudited;
    if (is == nullptr) { printf("A null issue inside range at %s\n", where); return; }
    if (is->description().empty()) printf("A empty description at %s rule=%d\n", where, int(is->referenceRule()));
    int lv = int(is->level());
    if (lv < 0 || lv > 2) printf("A bad level %d at %s\n", lv, where);
    try {
        std::string h = is->referenceHeading();
        std::string u = is->url();
        (void)h;
        if (is->referenceRule() != Issue::ReferenceRule::UNDEFINED && u.empty()) printf("A empty url at %s rule=%d\n", where, int(is->referenceRule()));
    } catch (const std::exception &e) {
        printf("A heading/url throws at %s rule=%d\n", where, int(is->referenceRule()));
    }
    auto item = is->item();
    if (item == nullptr) { printf("A null item at %s\n", where); return; }
    bool ok = true;
    switch (item->type()) {
    case CellmlElementType::COMPONENT: case CellmlElementType::COMPONENT_REF: ok = item->component() != nullptr; break;
    case CellmlElementType::CONNECTION: case CellmlElementType::MAP_VARIABLES: ok = item->variablePair() != nullptr; break;
    case CellmlElementType::ENCAPSULATION: case CellmlElementType::MODEL: ok = item->model() != nullptr; break;
    case CellmlElementType::IMPORT: ok = item->importSource() != nullptr; break;
    case CellmlElementType::MATH: ok = item->component() != nullptr; break;
    case CellmlElementType::RESET: case CellmlElementType::RESET_VALUE: case CellmlElementType::TEST_VALUE: ok = item->reset() != nullptr; break;
    case CellmlElementType::UNIT: ok = item->unitsItem() != nullptr; break;
    case CellmlElementType::UNITS: ok = item->units() != nullptr; break;
    case CellmlElementType::VARIABLE: ok = item->variable() != nullptr; break;
    case CellmlElementType::UNDEFINED: ok = true; break;
    }
    // a stored object that has since been destroyed (weak reference expired) is reported separately
    if (!ok) printf("A item object does not match element type %s at %s rule=%d\n", cellmlElementTypeAsString(item->type()).c_str(), where, int(is->referenceRule()));
}

static void observe(const Logger *l, const char *where)
{
    ++gObs;
    int id = loggerId(l);
    const void *impl = l->verifImpl();
    std::string ops;
    std::vector<TraceOp> rest;
    for (auto &t : gTrace) {
        if (t.impl == impl) {
            char buf[32];
            if (t.op == 0) snprintf(buf, sizeof buf, " a%zu", t.arg);
            else if (t.op == 1) snprintf(buf, sizeof buf, " r%zu", t.arg);
            else snprintf(buf, sizeof buf, " c");
            ops += buf;
        } else rest.push_back(t);
    }
    gTrace.swap(rest);
    printf("L %d%s\n", id, ops.c_str());
    size_t n = l->issueCount();
    std::string levels;
    std::vector<Issue *> ptrs;
    for (size_t i = 0; i < n; ++i) {
        auto is = l->issue(i);
        ptrs.push_back(is.get());
        levels.push_back(is == nullptr ? '?' : "EWM"[int(is->level()) % 3]);
        auditIssue(is, where);
    }
    auto pos = [&](const IssuePtr &p) -> long { for (size_t i = 0; i < ptrs.size(); ++i) if (ptrs[i] == p.get()) return long(i); return -1; };
    std::string e = "E:", w = "W:", m = "M:";
    bool thrown = false;
    try {
        for (size_t i = 0; i < l->errorCount(); ++i) e += std::to_string(pos(l->error(i))) + ",";
        for (size_t i = 0; i < l->warningCount(); ++i) w += std::to_string(pos(l->warning(i))) + ",";
        for (size_t i = 0; i < l->messageCount(); ++i) m += std::to_string(pos(l->message(i))) + ",";
    } catch (const std::exception &) { thrown = true; }
    bool oob = l->issue(n) == nullptr && l->error(l->errorCount()) == nullptr && l->warning(l->warningCount()) == nullptr
               && l->message(l->messageCount()) == nullptr && l->issue(n + 7) == nullptr && l->error(size_t(-1)) == nullptr;
    printf("O %d %zu %zu %zu %zu %s %s %s %s oob=%d%s\n", id, n, l->errorCount(), l->warningCount(), l->messageCount(),
           levels.empty() ? "-" : levels.c_str(), e.c_str(), w.c_str(), m.c_str(), oob ? 1 : 0, thrown ? " THROWN" : "");
    // property oracle evaluated directly on the implementation
    if (n != l->errorCount() + l->warningCount() + l->messageCount()) printf("A count identity fails at %s\n", where);
    size_t ce = 0, cw = 0, cm = 0;
    for (size_t i = 0; i < n; ++i) {
        auto is = l->issue(i);
        if (is == nullptr) continue;
        if (is->level() == Issue::Level::ERROR) { if (l->error(ce) != is) printf("A error(%zu) is not the %zu-th error at %s\n", ce, ce, where); ++ce; }
        else if (is->level() == Issue::Level::WARNING) { if (l->warning(cw) != is) printf("A warning(%zu) mismatch at %s\n", cw, where); ++cw; }
        else { if (l->message(cm) != is) printf("A message(%zu) mismatch at %s\n", cm, where); ++cm; }
    }
    if (!oob) printf("A out-of-range index does not return null at %s\n", where);
}

static void explained(bool failing, const Logger *l, const char *call, const std::string &file)
{
    printf("S %s %s\n", call, failing ? "fail" : "ok");
    if (failing && l->issueCount() == 0) printf("A unexplained failure: %s returned a failing result with an empty issue list (%s)\n", call, file.c_str());
}

static std::string slurp(const std::string &p)
{
    std::ifstream f(p, std::ios::binary);
    std::stringstream b; b << f.rdbuf();
    return b.str();
}

static void listFiles(const std::string &dir, std::vector<std::string> &out)
{
    DIR *d = opendir(dir.c_str());
    if (!d) return;
    std::vector<std::string> names;
    while (auto *e = readdir(d)) { std::string n = e->d_name; if (n != "." && n != "..") names.push_back(n); }
    closedir(d);
    std::sort(names.begin(), names.end());
    for (auto &n : names) {
        std::string p = dir + "/" + n;
        struct stat st;
        if (stat(p.c_str(), &st) != 0) continue;
        if (S_ISDIR(st.st_mode)) listFiles(p, out);
        else if (n.size() > 4 && (n.substr(n.size() - 4) == ".xml" || (n.size() > 7 && n.substr(n.size() - 7) == ".cellml"))) out.push_back(p);
    }
}

static void scenario(const std::string &file, const std::string &text, bool strict, std::mt19937 &rng)
{
    auto parser = adopt(Parser::create(strict));
    auto model = parser->parseModel(text);
    observe(parser.get(), "parseModel");
    explained(model == nullptr, parser.get(), "parseModel", file);
    // a second parse on the same instance: the list must restart
    if (rng() % 4 == 0) {
        auto m2 = parser->parseModel(text.substr(0, text.size() / 2));
        observe(parser.get(), "parseModel(truncated)");
        explained(m2 == nullptr, parser.get(), "parseModel", file);
    }
    if (model == nullptr) { forget(parser.get()); return; }
    auto validator = adopt(Validator::create());
    validator->validateModel(model);
    observe(validator.get(), "validateModel");
    bool valid = validator->issueCount() == 0;
    std::string dir = file.substr(0, file.find_last_of('/') + 1);
    auto importer = adopt(Importer::create(strict));
    bool resolved = importer->resolveImports(model, dir);
    observe(importer.get(), "resolveImports");
    explained(!resolved, importer.get(), "resolveImports", file);
    auto flat = importer->flattenModel(model);
    observe(importer.get(), "flattenModel");
    explained(flat == nullptr, importer.get(), "flattenModel", file);
    auto printer = adopt(Printer::create());
    printer->printModel(model);
    observe(printer.get(), "printModel");
    auto target = flat != nullptr ? flat : model;
    auto analyser = adopt(Analyser::create());
    analyser->analyseModel(target);
    observe(analyser.get(), "analyseModel");
    auto am = analyser->model();
    bool bad = am == nullptr || am->type() == AnalyserModel::Type::INVALID || am->type() == AnalyserModel::Type::UNDERCONSTRAINED
               || am->type() == AnalyserModel::Type::OVERCONSTRAINED || am->type() == AnalyserModel::Type::UNSUITABLY_CONSTRAINED;
    explained(bad, analyser.get(), "analyseModel", file);
    (void)valid;
    auto annotator = adopt(Annotator::create());
    annotator->setModel(model);
    auto it = annotator->item("no-such-id-" + std::to_string(rng() % 1000));
    observe(annotator.get(), "annotator.item(unknown)");
    explained(it == nullptr || it->type() == CellmlElementType::UNDEFINED, annotator.get(), "annotator.item", file);
    auto ids = annotator->ids();
    if (!ids.empty()) {
        auto dup = annotator->duplicateIds();
        if (!dup.empty()) {
            auto it2 = annotator->item(dup[0]);
            observe(annotator.get(), "annotator.item(duplicate)");
            explained(it2 == nullptr || it2->type() == CellmlElementType::UNDEFINED, annotator.get(), "annotator.item", file);
        }
    }
    bool a1 = annotator->assignIds(CellmlElementType::VARIABLE);
    observe(annotator.get(), "assignIds");
    (void)a1;
    auto fresh = adopt(Annotator::create());
    bool a2 = fresh->assignAllIds();
    observe(fresh.get(), "assignAllIds(no model)");
    explained(!a2, fresh.get(), "assignAllIds()", file);
    std::string id = fresh->assignId(model->componentCount() > 0 ? model->component(0) : nullptr);
    observe(fresh.get(), "assignId(no model)");
    explained(id.empty(), fresh.get(), "assignId", file);
    {
        // assignments and indexed lookups that must fail: an item of another model, a variable that no component owns, an
        // index beyond the items that carry the identifier
        auto other = Model::create("other");
        auto foreign = Component::create("foreign");
        other->addComponent(foreign);
        std::string f1 = annotator->assignId(foreign);
        observe(annotator.get(), "assignId(component of another model)");
        explained(f1.empty(), annotator.get(), "assignId(foreign component)", file);
        auto orphan = Variable::create("orphan");
        std::string f2 = annotator->assignId(orphan);
        observe(annotator.get(), "assignId(orphan variable)");
        explained(f2.empty(), annotator.get(), "assignId(orphan variable)", file);
        auto all = annotator->ids();
        if (!all.empty()) {
            auto far = annotator->item(all[0], annotator->itemCount(all[0]) + 2);
            observe(annotator.get(), "annotator.item(id, index out of range)");
            explained(far == nullptr || far->type() == CellmlElementType::UNDEFINED, annotator.get(), "annotator.item(id, index)", file);
            // a typed lookup with an identifier that exists but belongs to an element of another type
            for (const auto &anId : all) {
                auto it0 = annotator->item(anId, 0);
                if (it0 != nullptr && it0->type() != CellmlElementType::UNDEFINED && it0->type() != CellmlElementType::COMPONENT
                    && it0->type() != CellmlElementType::COMPONENT_REF && it0->type() != CellmlElementType::MATH && annotator->itemCount(anId) == 1) {
                    size_t before = annotator->issueCount();
                    auto wrong = annotator->component(anId);
                    observe(annotator.get(), "annotator.component(id of another element type)");
                    printf("S annotator.component(id of another element type) %s\n", wrong == nullptr ? "fail" : "ok");
                    if (wrong == nullptr && (annotator->issueCount() == 0 || annotator->issueCount() == before))
                        printf("A unexplained failure: annotator.component(id of another element type) returned null without a new issue (%s)\n", file.c_str());
                    break;
                }
            }
            auto farc = annotator->component(all[0], annotator->itemCount(all[0]) + 1);
            observe(annotator.get(), "annotator.component(id, index out of range)");
            explained(farc == nullptr, annotator.get(), "annotator.component(id, index)", file);
        }
    }
    for (auto *l : std::vector<Logger *>{parser.get(), validator.get(), importer.get(), printer.get(), analyser.get(), annotator.get(), fresh.get()}) forget(l);
}

// ---- generated import worlds (fault scenarios): main model imports a component and a units from a library file
static void writeFile(const std::string &path, const std::string &text)
{
    std::ofstream f(path, std::ios::binary);
    f << text;
}

static std::vector<std::pair<std::string, std::string>> libraryVariants()
{
    const std::string ns2 = "http://www.cellml.org/cellml/2.0#", ns11 = "http://www.cellml.org/cellml/1.1#", ns10 = "http://www.cellml.org/cellml/1.0#";
    auto lib = [](const std::string &ns, const std::string &extraInComponent, const std::string &extraInModel, const std::string &unitsName, const std::string &compName) {
        return "<?xml version=\"1.0\" encoding=\"UTF-8\"?>\n<model xmlns=\"" + ns + "\" name=\"lib\">\n"
               "  <units name=\"" + unitsName + "\"><unit units=\"metre\" prefix=\"milli\"/></units>\n" + extraInModel +
               "  <component name=\"" + compName + "\">\n    <variable name=\"x\" units=\"dimensionless\"/>\n" + extraInComponent + "  </component>\n"
               "  <component name=\"other\">" + "</component>\n</model>\n";
    };
    std::vector<std::pair<std::string, std::string>> v;
    v.push_back({"ok20", lib(ns2, "", "", "mm", "comp")});
    v.push_back({"ok11", lib(ns11, "", "", "mm", "comp")});
    v.push_back({"ok10", lib(ns10, "", "", "mm", "comp")});
    v.push_back({"err20_component", lib(ns2, "    stray text\n", "", "mm", "comp")});
    v.push_back({"err11_component", lib(ns11, "    stray text\n", "", "mm", "comp")});
    v.push_back({"err10_component", lib(ns10, "    <variable units=\"dimensionless\"/>stray\n", "", "mm", "comp")});
    v.push_back({"err11_elsewhere", lib(ns11, "", "  <units><unit units=\"second\"/></units>\n  stray model text\n", "mm", "comp")});
    v.push_back({"err10_elsewhere", lib(ns10, "", "  <units><unit units=\"second\"/></units>\n", "mm", "comp")});
    v.push_back({"err20_elsewhere", lib(ns2, "", "  <units><unit units=\"second\"/></units>\n  <banana/>\n", "mm", "comp")});
    v.push_back({"err11_two", lib(ns11, "    stray\n    <variable name=\"x\" units=\"dimensionless\"/>\n", "  stray\n  <units/>\n", "mm", "comp")});
    v.push_back({"missing_entities", lib(ns2, "", "", "cm", "compo")});
    v.push_back({"missing_entities11", lib(ns11, "  garbage\n", "", "cm", "compo")});
    v.push_back({"notxml", "this is <not xml"});
    v.push_back({"othervocab", "<?xml version=\"1.0\"?><html><body/></html>"});
    v.push_back({"empty", ""});
    return v;
}

static void worldScenario(const std::string &dir, const std::string &libName, bool strict, int what)
{
    std::string imports;
    if (what & 1) imports += "  <import xmlns:xlink=\"http://www.w3.org/1999/xlink\" xlink:href=\"" + libName + ".cellml\"><component name=\"c1\" component_ref=\"comp\"/></import>\n";
    if (what & 2) imports += "  <import xmlns:xlink=\"http://www.w3.org/1999/xlink\" xlink:href=\"" + libName + ".cellml\"><units name=\"u1\" units_ref=\"mm\"/></import>\n";
    if (what & 4) imports += "  <import xmlns:xlink=\"http://www.w3.org/1999/xlink\" xlink:href=\"nofile_" + libName + ".cellml\"><component name=\"c2\" component_ref=\"comp\"/></import>\n";
    std::string text = "<?xml version=\"1.0\" encoding=\"UTF-8\"?>\n<model xmlns=\"http://www.cellml.org/cellml/2.0#\" name=\"main\">\n" + imports + "</model>\n";
    auto parser = adopt(Parser::create(strict));
    auto model = parser->parseModel(text);
    observe(parser.get(), "world parseModel");
    if (model == nullptr) return;
    auto importer = adopt(Importer::create(strict));
    bool resolved = importer->resolveImports(model, dir + "/");
    observe(importer.get(), "world resolveImports");
    explained(!resolved, importer.get(), "resolveImports", "world:" + libName);
    // a second resolution on the same importer (library cache) and a flatten
    bool resolved2 = importer->resolveImports(model, dir + "/");
    observe(importer.get(), "world resolveImports(again)");
    explained(!resolved2, importer.get(), "resolveImports", "world:" + libName);
    if (resolved) {
        auto flat = importer->flattenModel(model);
        observe(importer.get(), "world flattenModel");
        explained(flat == nullptr, importer.get(), "flattenModel", "world:" + libName);
    }
    forget(parser.get()); forget(importer.get());
}

// two library files in one resolution: several messages (1.x files) are logged before an error that is then removed
static void worldScenario2(const std::string &dir, const std::string &libA, const std::string &libB, bool strict, bool swap)
{
    std::string imports;
    imports += "  <import xmlns:xlink=\"http://www.w3.org/1999/xlink\" xlink:href=\"" + (swap ? libB : libA) + ".cellml\"><units name=\"u1\" units_ref=\"mm\"/></import>\n";
    imports += "  <import xmlns:xlink=\"http://www.w3.org/1999/xlink\" xlink:href=\"" + (swap ? libA : libB) + ".cellml\"><component name=\"c1\" component_ref=\"comp\"/></import>\n";
    imports += "  <import xmlns:xlink=\"http://www.w3.org/1999/xlink\" xlink:href=\"" + libB + ".cellml\"><component name=\"c2\" component_ref=\"other\"/></import>\n";
    std::string text = "<?xml version=\"1.0\" encoding=\"UTF-8\"?>\n<model xmlns=\"http://www.cellml.org/cellml/2.0#\" name=\"main\">\n" + imports + "</model>\n";
    auto parser = adopt(Parser::create(strict));
    auto model = parser->parseModel(text);
    observe(parser.get(), "world2 parseModel");
    if (model == nullptr) return;
    auto importer = adopt(Importer::create(strict));
    bool resolved = importer->resolveImports(model, dir + "/");
    observe(importer.get(), "world2 resolveImports");
    explained(!resolved, importer.get(), "resolveImports", "world2:" + libA + "+" + libB);
    forget(parser.get()); forget(importer.get());
}

static void worlds(const std::string &dir)
{
    auto variants = libraryVariants();
    for (auto &v : variants) writeFile(dir + "/" + v.first + ".cellml", v.second);
    size_t index = 0;
    for (auto &v : variants) {
        for (int strict = 0; strict < 2; ++strict) {
            for (int what = 1; what < 8; ++what) {
                ++index;
                fflush(stdout);
                pid_t pid = fork();
                if (pid == 0) {
                    alarm(60);
                    gNext = 500000 + int(index) * 100;
                    worldScenario(dir, v.first, strict != 0, what);
                    printf("Z issues_audited=%zu observations=%zu files=1\n", gIssuesAudited, gObs);
                    fflush(stdout);
                    _exit(0);
                }
                int st = 0;
                waitpid(pid, &st, 0);
                if (WIFSIGNALED(st)) printf("X crash world=%s strict=%d what=%d signal=%d\n", v.first.c_str(), strict, what, WTERMSIG(st));
            }
        }
    }
    const char *firsts[] = {"ok11", "ok10", "ok20"};
    for (auto a : firsts) {
        for (auto &b : variants) {
            for (int k = 0; k < 4; ++k) {
                ++index;
                fflush(stdout);
                pid_t pid = fork();
                if (pid == 0) {
                    alarm(60);
                    gNext = 500000 + int(index) * 100;
                    worldScenario2(dir, a, b.first, (k & 1) != 0, (k & 2) != 0);
                    printf("Z issues_audited=%zu observations=%zu files=1\n", gIssuesAudited, gObs);
                    fflush(stdout);
                    _exit(0);
                }
                int st = 0;
                waitpid(pid, &st, 0);
                if (WIFSIGNALED(st)) printf("X crash world2=%s+%s k=%d signal=%d\n", a, b.first.c_str(), k, WTERMSIG(st));
            }
        }
    }
}

// every value of the two enumerations through the real accessors (C15-4)
static int enumerations(int nRules, int nTypes)
{
    for (int r = 0; r < nRules; ++r) {
        std::string res = hx::forked([&]() -> std::string {
            auto issue = Issue::IssueImpl::create();
            issue->mPimpl->setReferenceRule(Issue::ReferenceRule(r));
            std::string h = issue->referenceHeading();
            std::string u = issue->url();
            return "ok";
        });
        printf("R rule %d %s\n", r, res.c_str());
    }
    for (int t = 0; t < nTypes; ++t) {
        std::string res = hx::forked([&]() -> std::string { return cellmlElementTypeAsString(CellmlElementType(t)).empty() ? "empty" : "ok"; });
        printf("R type %d %s\n", t, res.c_str());
    }
    return 0;
}

int main(int argc, char **argv)
{
    if (argc == 4 && std::string(argv[1]) == "enums") return enumerations(atoi(argv[2]), atoi(argv[3]));
    if (argc == 3 && std::string(argv[1]) == "worlds") { verifLoggerTrace = traceCb; worlds(argv[2]); return 0; }
    if (argc < 4) { fprintf(stderr, "usage: hx_logger <resources dir> <seed> <max files> | worlds <scratch dir> | enums <nrules> <ntypes>\n"); return 2; }
    std::string dir = argv[1];
    unsigned seed = unsigned(atol(argv[2]));
    size_t maxFiles = size_t(atol(argv[3]));
    verifLoggerTrace = traceCb;
    std::vector<std::string> files;
    listFiles(dir, files);
    std::mt19937 rng(seed);
    std::shuffle(files.begin(), files.end(), rng);
    if (files.size() > maxFiles) files.resize(maxFiles);
    std::sort(files.begin(), files.end());
    size_t fileIndex = 0;
    for (auto &f : files) {
        ++fileIndex;
        std::string text = slurp(f);
        if (text.size() > 400000) continue;
        unsigned childSeed = unsigned(rng());
        fflush(stdout);
        pid_t pid = fork();
        if (pid == 0) {
            alarm(120);
            gNext = int(fileIndex) * 1000;
            std::mt19937 crng(childSeed);
            scenario(f, text, true, crng);
            scenario(f, text, false, crng);
            // garbage stream: a truncated copy and a byte-mutated copy
            std::string cut = text.substr(0, text.empty() ? 0 : crng() % text.size());
            scenario(f + "#cut", cut, crng() % 2 == 0, crng);
            if (!text.empty()) {
                std::string mut = text;
                for (int k = 0; k < 3; ++k) mut[crng() % mut.size()] = "<>&\"'/ x0"[crng() % 9];
                scenario(f + "#mut", mut, crng() % 2 == 0, crng);
            }
            printf("Z issues_audited=%zu observations=%zu files=1\n", gIssuesAudited, gObs);
            fflush(stdout);
            _exit(0);
        }
        int st = 0;
        waitpid(pid, &st, 0);
        if (WIFSIGNALED(st)) printf("X crash file=%s seed=%u signal=%d\n", f.c_str(), childSeed, WTERMSIG(st));
        else if (WIFEXITED(st) && WEXITSTATUS(st) != 0) printf("X crash file=%s seed=%u exit=%d\n", f.c_str(), childSeed, WEXITSTATUS(st));
    }
    // the one call the known finding is about, observed separately
    {
        gNext = 0;
        auto annotator = adopt(Annotator::create());
        ModelPtr nullModel;
        bool r = annotator->assignAllIds(nullModel);
        observe(annotator.get(), "assignAllIds(null model)");
        printf("S assignAllIds(null) %s\n", r ? "ok" : "fail");
        if (!r && annotator->issueCount() == 0) printf("A unexplained failure: Annotator::assignAllIds(ModelPtr&) with a null model returned false with an empty issue list\n");
    }
    gNext = 0;
    printf("Z issues_audited=%zu observations=%zu files=0\n", gIssuesAudited, gObs);
    return 0;
}
