// Engine `num` (C16): the real recognisers / conversions of src/utilities.cpp.
#include "hx_common.h"
#include "utilities.h"
#include "libcellml/module/libcellml"
#include <stdexcept>

using namespace libcellml;

static char dClass(const std::string &s)
{
    try {
        double d;
        if (convertToDouble(s, d)) return 'C';
        return isCellMLReal(s) ? 'O' : 'R';
    } catch (const std::invalid_argument &) {
        return 'T';
    } catch (...) {
        return 'X';
    }
}

static char iClass(const std::string &s)
{
    try {
        int i;
        if (convertToInt(s, i)) return 'C';
        return isCellMLInteger(s) ? 'O' : 'R';
    } catch (const std::invalid_argument &) {
        return 'T';
    } catch (...) {
        return 'X';
    }
}

static void answer(const std::string &s)
{
    printf("%s %d%d%d%d %c %c\n", hx::toHex(s).c_str(), isNonNegativeCellMLInteger(s) ? 1 : 0, isCellMLInteger(s) ? 1 : 0,
           isCellMLBasicReal(s) ? 1 : 0, isCellMLReal(s) ? 1 : 0, dClass(s), iClass(s));
}

static const std::string alphabet = "0123456789+-.eE a";

static void enumerate(size_t n, std::string &cur)
{
    if (cur.size() == n) { answer(cur); return; }
    for (char c : alphabet) { cur.push_back(c); enumerate(n, cur); cur.pop_back(); }
}

// ---- numpos: the same text in every position where a number is read -----------------------------
static std::string docFor(const std::string &pos, const std::string &s)
{
    auto v = [&](const char *p, const char *dflt) { return pos == p ? s : std::string(dflt); };
    std::string cn;
    if (pos == "cnmant" || pos == "cnexp") {
        cn = "<cn cellml:units=\"dimensionless\" type=\"e-notation\">" + v("cnmant", "1.5") + "<sep/>" + v("cnexp", "2") + "</cn>";
    } else {
        cn = "<cn cellml:units=\"dimensionless\">" + v("cnreal", "1") + "</cn>";
    }
    return std::string("<?xml version=\"1.0\" encoding=\"UTF-8\"?>\n"
           "<model xmlns=\"http://www.cellml.org/cellml/2.0#\" name=\"m\">\n"
           "  <units name=\"uu\"><unit units=\"metre\" prefix=\"") + v("prefix", "3") + "\" exponent=\"" + v("exponent", "2") + "\" multiplier=\"" + v("multiplier", "1.5") + "\"/></units>\n"
           "  <component name=\"c\">\n"
           "    <variable name=\"v\" units=\"dimensionless\" initial_value=\"" + v("initial", "1") + "\"/>\n"
           "    <variable name=\"w\" units=\"dimensionless\"/>\n"
           "    <reset variable=\"v\" test_variable=\"w\" order=\"" + v("order", "1") + "\">\n"
           "      <test_value><math xmlns=\"http://www.w3.org/1998/Math/MathML\" xmlns:cellml=\"http://www.cellml.org/cellml/2.0#\"><cn cellml:units=\"dimensionless\">1</cn></math></test_value>\n"
           "      <reset_value><math xmlns=\"http://www.w3.org/1998/Math/MathML\" xmlns:cellml=\"http://www.cellml.org/cellml/2.0#\"><cn cellml:units=\"dimensionless\">2</cn></math></reset_value>\n"
           "    </reset>\n"
           "    <math xmlns=\"http://www.w3.org/1998/Math/MathML\" xmlns:cellml=\"http://www.cellml.org/cellml/2.0#\">"
           "<apply><eq/><ci>w</ci>" + cn + "</apply></math>\n"
           "  </component>\n</model>\n";
}

static int posAnswer(const std::string &pos, const std::string &s)
{
    using namespace libcellml;
    Issue::ReferenceRule rule;
    if (pos == "exponent") rule = Issue::ReferenceRule::UNIT_ATTRIBUTE_EXPONENT_VALUE;
    else if (pos == "multiplier") rule = Issue::ReferenceRule::UNIT_ATTRIBUTE_MULTIPLIER_VALUE;
    else if (pos == "prefix") rule = Issue::ReferenceRule::UNIT_ATTRIBUTE_PREFIX_VALUE;
    else if (pos == "initial") rule = Issue::ReferenceRule::VARIABLE_INITIAL_VALUE_VALUE;
    else if (pos == "order") rule = Issue::ReferenceRule::RESET_ORDER_VALUE;
    else if (pos == "cnreal" || pos == "cnmant" || pos == "cnexp") rule = Issue::ReferenceRule::MATH_CN_FORMAT;
    else return -2;
    try {
        auto parser = Parser::create(true);
        auto model = parser->parseModel(docFor(pos, s));
        int n = 0;
        for (size_t i = 0; i < parser->issueCount(); ++i) if (parser->issue(i)->referenceRule() == rule) ++n;
        if (model != nullptr) {
            auto validator = Validator::create();
            validator->validateModel(model);
            for (size_t i = 0; i < validator->issueCount(); ++i) if (validator->issue(i)->referenceRule() == rule) ++n;
            // the later stages must not throw either
            auto printer = Printer::create();
            printer->printModel(model);
            auto analyser = Analyser::create();
            analyser->analyseModel(model);
        }
        return n > 0 ? 1 : 0;
    } catch (...) {
        return -1;
    }
}

int main(int argc, char **argv)
{
    std::string mode = argc > 1 ? argv[1] : "";
    if (mode == "num-enum") {
        size_t n = size_t(atoi(argv[2]));
        for (size_t k = 0; k <= n; ++k) { std::string cur; enumerate(k, cur); }
        return 0;
    }
    if (mode == "numpos") {
        std::string line;
        while (std::getline(std::cin, line)) {
            auto t = hx::tokens(line);
            std::string s;
            if (t.size() != 2 || !hx::fromHex(t[1], s)) { puts("bad-line"); continue; }
            int r = posAnswer(t[0], s);
            if (r == -1) printf("%s %s THROWS\n", t[0].c_str(), t[1].c_str());
            else printf("%s %s %d\n", t[0].c_str(), t[1].c_str(), r);
        }
        return 0;
    }
    if (mode == "tostring") {
        // one hexadecimal floating-point literal per line -> convertToString(value) as hex, and what convertToDouble reads back
        std::string line;
        while (std::getline(std::cin, line)) {
            double d = strtod(line.c_str(), nullptr);
            std::string t = convertToString(d);
            double back = 0.0;
            bool ok = isCellMLReal(t) && convertToDouble(t, back);
            char b[64]; snprintf(b, sizeof b, "%a", back);
            printf("%s %d %s\n", hx::toHex(t).c_str(), ok ? 1 : 0, b);
        }
        return 0;
    }
    if (mode == "num") {
        std::string line;
        while (std::getline(std::cin, line)) {
            std::string s;
            auto t = hx::tokens(line);
            if (t.size() != 1 || !hx::fromHex(t[0], s)) { puts("bad-line"); continue; }
            answer(s);
        }
        return 0;
    }
    fprintf(stderr, "usage: hx_num num|num-enum N\n");
    return 2;
}
