// Engine `num` (C16): the real recognisers / conversions of src/utilities.cpp.
#include "hx_common.h"
#include "utilities.h"
#include <stdexcept>

using namespace libcellml;

static char dClass(const std::string &s)
{
    try {
        double d;
        if (convertToDouble(s, d)) return 'C';
        return isCellMLReal(s) ? 'O' : 'R';
    } catch (const std::invalid_argument &) {
        return 'T';
    } catch (...) {
        return 'X';
    }
}

static char iClass(const std::string &s)
{
    try {
        int i;
        if (convertToInt(s, i)) return 'C';
        return isCellMLInteger(s) ? 'O' : 'R';
    } catch (const std::invalid_argument &) {
        return 'T';
    } catch (...) {
        return 'X';
    }
}

static void answer(const std::string &s)
{
    printf("%s %d%d%d%d %c %c\n", hx::toHex(s).c_str(), isNonNegativeCellMLInteger(s) ? 1 : 0, isCellMLInteger(s) ? 1 : 0,
           isCellMLBasicReal(s) ? 1 : 0, isCellMLReal(s) ? 1 : 0, dClass(s), iClass(s));
}

static const std::string alphabet = "0123456789+-.eE a";

static void enumerate(size_t n, std::string &cur)
{
    if (cur.size() == n) { answer(cur); return; }
    for (char c : alphabet) { cur.push_back(c); enumerate(n, cur); cur.pop_back(); }
}

int main(int argc, char **argv)
{
    std::string mode = argc > 1 ? argv[1] : "";
    if (mode == "num-enum") {
        size_t n = size_t(atoi(argv[2]));
        for (size_t k = 0; k <= n; ++k) { std::string cur; enumerate(k, cur); }
        return 0;
    }
    if (mode == "num") {
        std::string line;
        while (std::getline(std::cin, line)) {
            std::string s;
            auto t = hx::tokens(line);
            if (t.size() != 1 || !hx::fromHex(t[0], s)) { puts("bad-line"); continue; }
            answer(s);
        }
        return 0;
    }
    fprintf(stderr, "usage: hx_num num|num-enum N\n");
    return 2;
}
