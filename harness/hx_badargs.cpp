// C09, second sentence: every public method that takes an entity, an index or a name — on the object model and on the
// services that accept entities — returns false / null / an issue and does not crash when given a null pointer, an entity
// that was never added to a model, an entity whose owner has been destroyed, an out-of-range index or an unknown name.
//
// Each probe runs in a forked child (a crash or a hang is an outcome, not the end of the audit) and prints one line:
//   <name> ok | <name> accepted (a call that must refuse returned true / non-null) | <name> crash <signal> | <name> hang
#include "hx_common.h"
#include "libcellml/module/libcellml"
#include <functional>
#include <map>
#include <signal.h>

using namespace libcellml;

static const char *EM = "<math xmlns=\"http://www.w3.org/1998/Math/MathML\"/>";
static const char *EQ = "<math xmlns=\"http://www.w3.org/1998/Math/MathML\" xmlns:cellml=\"http://www.cellml.org/cellml/2.0#\"><apply><eq/><ci>x</ci><cn cellml:units=\"second\">1</cn></apply></math>";

// a small valid model: component c with x = 1 and a variable y
static ModelPtr base()
{
    auto m = Model::create("m");
    auto c = Component::create("c");
    m->addComponent(c);
    auto x = Variable::create("x"); x->setUnits("second"); c->addVariable(x);
    auto y = Variable::create("y"); y->setUnits("second"); y->setInitialValue(1.0); c->addVariable(y);
    c->setMath(EQ);
    return m;
}

// a variable whose owning component (and model) has been destroyed
static VariablePtr widow()
{
    auto m = base();
    auto v = m->component(0)->variable(0);
    m = nullptr;
    return v;
}

typedef std::function<bool()> Probe;   // returns true when the call refused / behaved (false: it accepted what it must refuse)

static void touch(const LoggerPtr &l)
{
    // reading back whatever the service reports must not crash either
    for (size_t i = 0; i < l->issueCount(); ++i) {
        auto is = l->issue(i);
        volatile size_t n = is->description().size() + is->referenceHeading().size() + is->url().size();
        (void)n;
        (void)is->item();
    }
}

int main()
{
    std::vector<std::pair<std::string, Probe>> P;
    auto add = [&](const std::string &n, Probe p) { P.emplace_back(n, p); };

    // ---- validator ---------------------------------------------------------------------------------------------------
    add("validator.validateModel(null)", [] { auto v = Validator::create(); v->validateModel(nullptr); touch(v); return v->issueCount() > 0; });
    add("validator: reset variable never added to a component", [] {
        auto m = base(); auto c = m->component(0);
        auto r = Reset::create(); r->setVariable(Variable::create("orphan")); r->setTestVariable(c->variable(0)); r->setOrder(1); r->setTestValue(EM); r->setResetValue(EM);
        c->addReset(r);
        auto v = Validator::create(); v->validateModel(m); touch(v); return v->issueCount() > 0; });
    add("validator: reset test variable never added to a component", [] {
        auto m = base(); auto c = m->component(0);
        auto r = Reset::create(); r->setVariable(c->variable(0)); r->setTestVariable(Variable::create("orphan")); r->setOrder(1); r->setTestValue(EM); r->setResetValue(EM);
        c->addReset(r);
        auto v = Validator::create(); v->validateModel(m); touch(v); return v->issueCount() > 0; });
    add("validator: reset variable whose owner is destroyed", [] {
        auto m = base(); auto c = m->component(0);
        auto r = Reset::create(); r->setVariable(widow()); r->setTestVariable(widow()); r->setOrder(1); r->setTestValue(EM); r->setResetValue(EM);
        c->addReset(r);
        auto v = Validator::create(); v->validateModel(m); touch(v); return v->issueCount() > 0; });
    add("validator: reset without variables", [] {
        auto m = base(); m->component(0)->addReset(Reset::create());
        auto v = Validator::create(); v->validateModel(m); touch(v); return v->issueCount() > 0; });
    add("validator: variable equivalent to a variable never added", [] {
        auto m = base(); auto o = Variable::create("orphan"); o->setUnits("second");
        Variable::addEquivalence(m->component(0)->variable(0), o);
        auto v = Validator::create(); v->validateModel(m); touch(v); return true; });
    add("validator: variable equivalent to a variable whose owner is destroyed", [] {
        auto m = base(); auto w = widow();
        Variable::addEquivalence(m->component(0)->variable(0), w);
        auto v = Validator::create(); v->validateModel(m); touch(v); return true; });
    add("validator: variable equivalent to a destroyed variable", [] {
        auto m = base();
        { auto w = Variable::create("gone"); Variable::addEquivalence(m->component(0)->variable(0), w); }
        auto v = Validator::create(); v->validateModel(m); touch(v); return true; });
    add("validator: variable with units object of no model", [] {
        auto m = base(); auto u = Units::create("foreign"); u->addUnit("second");
        m->component(0)->variable(0)->setUnits(u);
        auto v = Validator::create(); v->validateModel(m); touch(v); return true; });
    add("validator: variable without units", [] {
        auto m = base(); m->component(0)->variable(0)->removeUnits();
        auto v = Validator::create(); v->validateModel(m); touch(v); return v->issueCount() > 0; });
    add("validator: units referring to unknown units", [] {
        auto m = base(); auto u = Units::create("u"); u->addUnit("nowhere"); m->addUnits(u);
        auto v = Validator::create(); v->validateModel(m); touch(v); return v->issueCount() > 0; });
    add("validator: imported component without import source model", [] {
        auto m = base(); auto c = Component::create("i"); auto s = ImportSource::create(); s->setUrl("nowhere.cellml"); c->setImportSource(s); c->setImportReference("x"); m->addComponent(c);
        auto v = Validator::create(); v->validateModel(m); touch(v); return true; });

    // ---- analyser and analyser model ----------------------------------------------------------------------------------
    add("analyser.analyseModel(null)", [] { auto a = Analyser::create(); a->analyseModel(nullptr); touch(a); return a->issueCount() > 0; });
    add("analyser: variable equivalent to a variable never added", [] {
        auto m = base(); auto o = Variable::create("orphan"); o->setUnits("second");
        Variable::addEquivalence(m->component(0)->variable(0), o);
        auto a = Analyser::create(); a->analyseModel(m); touch(a); return true; });
    add("analyser: variable equivalent to a variable whose owner is destroyed", [] {
        auto m = base(); Variable::addEquivalence(m->component(0)->variable(0), widow());
        auto a = Analyser::create(); a->analyseModel(m); touch(a); return true; });
    add("analyser: reset variable never added", [] {
        auto m = base(); auto c = m->component(0);
        auto r = Reset::create(); r->setVariable(Variable::create("orphan")); r->setTestVariable(c->variable(0)); r->setOrder(1); r->setTestValue(EM); r->setResetValue(EM);
        c->addReset(r);
        auto a = Analyser::create(); a->analyseModel(m); touch(a); return true; });
    add("analyser.addExternalVariable(null)", [] { auto a = Analyser::create(); return !a->addExternalVariable(AnalyserExternalVariablePtr()); });
    add("analyser.addExternalVariable(of a null variable)", [] {
        auto a = Analyser::create(); auto e = AnalyserExternalVariable::create(nullptr); bool r = a->addExternalVariable(e); a->analyseModel(base()); touch(a); (void)r; return true; });
    add("analyser: external variable never added to a model", [] {
        auto a = Analyser::create(); auto e = AnalyserExternalVariable::create(Variable::create("orphan")); a->addExternalVariable(e);
        a->analyseModel(base()); touch(a); return true; });
    add("analyser: external variable whose owner is destroyed", [] {
        auto a = Analyser::create(); auto e = AnalyserExternalVariable::create(widow()); a->addExternalVariable(e);
        a->analyseModel(base()); touch(a); return true; });
    add("analyser: external variable of another model", [] {
        auto other = base();
        auto a = Analyser::create(); auto e = AnalyserExternalVariable::create(other->component(0)->variable(0)); a->addExternalVariable(e);
        a->analyseModel(base()); touch(a); return true; });
    add("analyser.externalVariable(out of range / null / unknown)", [] {
        auto a = Analyser::create(); auto m = base();
        return a->externalVariable(7) == nullptr && a->externalVariable(ModelPtr(), "c", "x") == nullptr && a->externalVariable(m, "nope", "x") == nullptr
               && !a->removeExternalVariable(7) && !a->removeExternalVariable(ModelPtr(), "c", "x") && !a->removeExternalVariable(m, "c", "nope")
               && !a->removeExternalVariable(AnalyserExternalVariablePtr()) && !a->containsExternalVariable(ModelPtr(), "c", "x") && !a->containsExternalVariable(AnalyserExternalVariablePtr()); });
    add("analyser lookups by name with an external variable holding a null variable", [] {
        auto a = Analyser::create(); auto m = base(); a->addExternalVariable(AnalyserExternalVariable::create(nullptr));
        bool r = a->containsExternalVariable(m, "c", "x") || a->removeExternalVariable(m, "c", "x");
        return !r && a->externalVariable(m, "c", "x") == nullptr; });
    add("analyser lookups by name with an external variable that is in no component", [] {
        auto a = Analyser::create(); a->addExternalVariable(AnalyserExternalVariable::create(Variable::create("orphan"))); a->addExternalVariable(AnalyserExternalVariable::create(widow()));
        bool r = a->containsExternalVariable(ModelPtr(), "c", "orphan") || a->removeExternalVariable(ModelPtr(), "c", "orphan") || a->containsExternalVariable(base(), "c", "x");
        return !r && a->externalVariable(ModelPtr(), "c", "orphan") == nullptr; });
    add("externalVariable dependency lookups by name with parentless variables", [] {
        auto e = AnalyserExternalVariable::create(Variable::create("x")); e->addDependency(Variable::create("w"));
        bool r = e->containsDependency(ModelPtr(), "c", "w") || e->removeDependency(ModelPtr(), "c", "w");
        auto m = base(); auto c = m->component(0); auto e2 = AnalyserExternalVariable::create(c->variable(0)); e2->addDependency(c->variable(1)); c->removeVariable(c->variable(1));
        bool r2 = e2->containsDependency(ModelPtr(), "c", "y") || e2->containsDependency(m, "c", "y");
        return !r && !r2 && e->dependency(ModelPtr(), "c", "w") == nullptr && e2->dependency(m, "c", "y") == nullptr; });
    add("Variable::addEquivalence(v, null, mapping id, connection id)", [] {
        auto m = base(); auto x = m->component(0)->variable(0);
        bool r = Variable::addEquivalence(x, nullptr, "m1", "c1") || Variable::addEquivalence(nullptr, x, "m1", "c1") || Variable::addEquivalence(nullptr, nullptr, "m1", "c1");
        return !r && x->equivalentVariableCount() == 0; });
    add("annotator.assignId(units of the model, index past its last unit)", [] {
        auto m = base(); auto u = Units::create("u"); u->addUnit("second"); m->addUnits(u);
        auto an = Annotator::create(); an->setModel(m);
        std::string id = an->assignId(u, 99); touch(an);
        return id.empty() && an->ids().empty() && u->unitId(0).empty(); });
    add("externalVariable.addDependency(null / orphan / other model)", [] {
        auto m = base(); auto e = AnalyserExternalVariable::create(m->component(0)->variable(0));
        bool a = e->addDependency(nullptr), b = e->addDependency(Variable::create("orphan")), c = e->addDependency(base()->component(0)->variable(1));
        return !a && !b && !c && e->dependency(9) == nullptr && !e->removeDependency(9) && !e->removeDependency(VariablePtr()) && !e->removeDependency(ModelPtr(), "c", "y")
               && e->dependency(ModelPtr(), "c", "y") == nullptr && !e->containsDependency(VariablePtr()); });
    add("analyserModel queries with null / orphan / out of range", [] {
        auto a = Analyser::create(); auto m = base(); a->analyseModel(m); auto am = a->model();
        if (am == nullptr) return false;
        bool q = am->areEquivalentVariables(nullptr, m->component(0)->variable(0)) || am->areEquivalentVariables(m->component(0)->variable(0), nullptr)
                 || am->areEquivalentVariables(Variable::create("orphan"), m->component(0)->variable(0))
                 || am->areEquivalentVariables(widow(), m->component(0)->variable(0));
        (void)am->areEquivalentVariables(nullptr, nullptr);
        return !q && am->state(99) == nullptr && am->variable(99) == nullptr && am->equation(99) == nullptr; });
    add("analyserModel of a null analysis", [] {
        auto a = Analyser::create(); a->analyseModel(nullptr); auto am = a->model();
        if (am == nullptr) return true;
        (void)am->type(); (void)am->isValid(); (void)am->voi(); (void)am->stateCount(); (void)am->states(); (void)am->variables(); (void)am->equations();
        return am->state(0) == nullptr && am->variable(0) == nullptr && am->equation(0) == nullptr; });

    // ---- generator ----------------------------------------------------------------------------------------------------
    add("generator without model / with null model / null profile", [] {
        auto g = Generator::create(); (void)g->interfaceCode(); (void)g->implementationCode();
        g->setModel(nullptr); (void)g->interfaceCode(); (void)g->implementationCode();
        (void)Generator::equationCode(nullptr); (void)Generator::equationCode(nullptr, nullptr);
        return true; });
    add("generator with the model of an invalid analysis", [] {
        auto m = base(); m->component(0)->variable(1)->removeInitialValue();
        auto a = Analyser::create(); a->analyseModel(m);
        auto g = Generator::create(); g->setModel(a->model()); (void)g->interfaceCode(); (void)g->implementationCode(); return true; });

    // ---- annotator ----------------------------------------------------------------------------------------------------
    add("annotator without model", [] {
        auto an = Annotator::create();
        bool r = an->assignAllIds() || an->assignIds(CellmlElementType::VARIABLE);
        (void)an->item("x"); (void)an->items("x"); (void)an->ids(); (void)an->duplicateIds(); (void)an->itemCount("x");
        return !r && an->component("x") == nullptr && an->variable("x") == nullptr && an->model("x") == nullptr && an->units("x") == nullptr && an->reset("x") == nullptr
               && an->importSource("x") == nullptr && an->encapsulation("x") == nullptr; });
    add("annotator.setModel(null) and lookups", [] {
        auto an = Annotator::create(); an->setModel(nullptr);
        bool r = an->assignAllIds(); touch(an);
        ModelPtr nm; bool r2 = an->assignAllIds(nm);
        return !r && !r2 && an->item("x") != nullptr && an->item("x")->type() == CellmlElementType::UNDEFINED; });
    add("annotator.assignId(null / orphan / foreign entities)", [] {
        auto an = Annotator::create(); an->setModel(base());
        std::string a = an->assignId(ComponentPtr()), b = an->assignId(VariablePtr()), c = an->assignId(ModelPtr()), d = an->assignId(UnitsPtr()), e = an->assignId(ResetPtr()),
                    f = an->assignId(ImportSourcePtr()), g = an->assignId(AnyCellmlElementPtr()), h = an->assignId(VariablePtr(), VariablePtr()), i = an->assignId(UnitsPtr(), 3),
                    j = an->assignId(Variable::create("orphan")), k = an->assignId(widow()), l = an->assignId(Units::create("u"), 5);
        touch(an);
        return a.empty() && b.empty() && c.empty() && d.empty() && e.empty() && f.empty() && g.empty() && h.empty() && i.empty() && l.empty(); });
    add("annotator.assignId(pair of variables with one end outside the model)", [] {
        auto m = base(); auto x = m->component(0)->variable(0);
        auto other = base(); auto far = other->component(0)->variable(0);
        auto orphan = Variable::create("orphan"); auto w = widow();
        bool ok = true;
        for (auto out : std::vector<VariablePtr> {orphan, far, w}) {
            Variable::addEquivalence(x, out);
            auto an = Annotator::create(); an->setModel(m);
            for (auto type : {CellmlElementType::MAP_VARIABLES, CellmlElementType::CONNECTION}) {
                std::string a = an->assignId(x, out, type), b = an->assignId(out, x, type);
                touch(an);
                ok = ok && a.empty() && b.empty() && Variable::equivalenceMappingId(x, out).empty() && Variable::equivalenceConnectionId(x, out).empty();
            }
            Variable::removeEquivalence(x, out);
        }
        return ok; });
    add("annotator: an import source shared by several imported entities is one item", [] {
        auto m = Model::create("m"); auto s = ImportSource::create(); s->setUrl("other.xml"); s->setId("imp");
        auto u = Units::create("u1"); u->setImportSource(s); u->setImportReference("u"); m->addUnits(u);
        auto c1 = Component::create("c1"); c1->setImportSource(s); c1->setImportReference("a"); m->addComponent(c1);
        auto c2 = Component::create("c2"); c2->setImportSource(s); c2->setImportReference("b"); m->addComponent(c2);
        auto an = Annotator::create(); an->setModel(m);
        bool one = an->itemCount("imp") == 1 && an->duplicateIds().empty() && an->importSource("imp") == s;
        touch(an);
        std::string id = an->assignId(s);
        bool moved = !id.empty() && s->id() == id && an->itemCount("imp") == 0 && an->itemCount(id) == 1;
        return one && moved; });
    add("annotator unknown id and out-of-range index", [] {
        auto an = Annotator::create(); auto m = base(); m->setId("i"); m->component(0)->setId("i"); an->setModel(m);
        auto it = an->item("nope"); auto it2 = an->item("i", 9);
        touch(an);
        return it != nullptr && it->type() == CellmlElementType::UNDEFINED && it2 != nullptr && it2->type() == CellmlElementType::UNDEFINED && an->component("nope") == nullptr && an->component("i", 9) == nullptr; });

    // ---- importer -----------------------------------------------------------------------------------------------------
    add("importer with null / unknown arguments", [] {
        auto im = Importer::create(); ModelPtr nm;
        bool a = im->resolveImports(nm, ""); touch(im);
        auto f = im->flattenModel(nm); touch(im);
        bool b = im->addModel(nullptr, "k"), c = im->replaceModel(nullptr, "k"), d = im->replaceModel(base(), "unknown");
        // (a null model may be put into the library on purpose: tests/importer/model_flattening.cpp does)
        (void)b; (void)c; (void)d;
        return !a && f == nullptr && im->library(9) == nullptr && im->library("unknown") == nullptr && im->key(9).empty()
               && im->importSource(9) == nullptr && !im->addImportSource(nullptr) && !im->removeImportSource(9) && !im->removeImportSource(ImportSourcePtr()); });
    add("importer: model with an import source without url / without reference", [] {
        auto m = base(); auto c = Component::create("i"); c->setImportSource(ImportSource::create()); m->addComponent(c);
        auto u = Units::create("iu"); auto s = ImportSource::create(); s->setUrl("nowhere.cellml"); u->setImportSource(s); m->addUnits(u);
        auto im = Importer::create(); bool r = im->resolveImports(m, "/nonexistent/"); touch(im);
        auto f = im->flattenModel(m); touch(im);
        return !r && f == nullptr; });
    add("importer.flattenModel: units object of no model, equivalence with an orphan", [] {
        auto m = base(); auto u = Units::create("foreign"); u->addUnit("second"); m->component(0)->variable(0)->setUnits(u);
        Variable::addEquivalence(m->component(0)->variable(1), Variable::create("orphan"));
        auto im = Importer::create(); auto f = im->flattenModel(m); touch(im); return true; });

    // ---- printer / parser ---------------------------------------------------------------------------------------------
    add("printer.printModel(null) and odd models", [] {
        auto p = Printer::create(); bool a = p->printModel(nullptr).empty(); touch(p);
        auto m = base(); Variable::addEquivalence(m->component(0)->variable(0), Variable::create("orphan")); Variable::addEquivalence(m->component(0)->variable(1), widow());
        auto r = Reset::create(); r->setVariable(Variable::create("o2")); r->setTestVariable(widow()); m->component(0)->addReset(r);
        (void)p->printModel(m); (void)p->printModel(m, true); touch(p);
        return a; });
    add("parser.parseModel(empty / garbage)", [] {
        auto p = Parser::create(); auto a = p->parseModel(""); touch(p); auto b = p->parseModel("\x01\x02<"); touch(p);
        return p->issueCount() > 0; });

    // ---- object model -------------------------------------------------------------------------------------------------
    add("component: null / orphan / out-of-range / unknown arguments", [] {
        auto m = base(); auto c = m->component(0);
        bool r = c->addVariable(nullptr) || c->addReset(nullptr) || c->addComponent(nullptr) || c->removeVariable(9) || c->removeVariable("nope") || c->removeVariable(VariablePtr())
                 || c->removeVariable(Variable::create("orphan")) || c->removeReset(9) || c->removeReset(ResetPtr()) || c->removeComponent(9) || c->removeComponent("nope")
                 || c->removeComponent(ComponentPtr()) || c->replaceComponent(9, Component::create("z")) || c->replaceComponent(0, nullptr) || c->replaceComponent("nope", Component::create("z"))
                 || c->hasVariable(VariablePtr()) || c->hasVariable("nope") || c->hasReset(ResetPtr()) || c->containsComponent(ComponentPtr()) || c->containsComponent("nope");
        return !r && c->variable(9) == nullptr && c->variable("nope") == nullptr && c->takeVariable(9) == nullptr && c->takeVariable("nope") == nullptr && c->reset(9) == nullptr
               && c->takeReset(9) == nullptr && c->component(9) == nullptr && c->component("nope") == nullptr && c->takeComponent(9) == nullptr && c->takeComponent("nope") == nullptr; });
    add("model: null / orphan / out-of-range / unknown arguments", [] {
        auto m = base();
        bool r = m->addUnits(nullptr) || m->addComponent(nullptr) || m->removeUnits(9) || m->removeUnits("nope") || m->removeUnits(UnitsPtr()) || m->removeUnits(Units::create("orphan"))
                 || m->replaceUnits(9, Units::create("z")) || m->replaceUnits("nope", Units::create("z")) || m->replaceUnits(UnitsPtr(), Units::create("z")) || m->hasUnits(UnitsPtr())
                 || m->hasUnits("nope") || m->removeComponent(ComponentPtr()) || m->removeComponent(Component::create("orphan"));
        (void)m->linkUnits(); (void)m->hasUnlinkedUnits(); (void)m->hasUnresolvedImports(); (void)m->hasImports(); (void)m->isDefined(); (void)m->fixVariableInterfaces(); (void)m->clean();
        return !r && m->units(9) == nullptr && m->units("nope") == nullptr && m->takeUnits(9) == nullptr && m->takeUnits("nope") == nullptr; });
    add("variable: equivalences with null / itself / destroyed variables", [] {
        auto m = base(); auto x = m->component(0)->variable(0);
        bool r = Variable::addEquivalence(nullptr, x) || Variable::addEquivalence(x, nullptr) || Variable::addEquivalence(nullptr, nullptr) || Variable::removeEquivalence(nullptr, x)
                 || Variable::removeEquivalence(x, nullptr) || Variable::removeEquivalence(x, m->component(0)->variable(1)) || x->hasEquivalentVariable(nullptr) || x->hasEquivalentVariable(nullptr, true);
        { auto w = Variable::create("gone"); Variable::addEquivalence(x, w); }
        size_t n = x->equivalentVariableCount();
        for (size_t i = 0; i <= n + 1; ++i) (void)x->equivalentVariable(i);
        (void)x->hasEquivalentVariable(m->component(0)->variable(1), true);
        (void)Variable::equivalenceMappingId(x, nullptr); (void)Variable::equivalenceConnectionId(nullptr, x);
        Variable::setEquivalenceMappingId(x, nullptr, "i"); Variable::setEquivalenceConnectionId(nullptr, nullptr, "i"); Variable::removeEquivalenceMappingId(x, nullptr); Variable::removeEquivalenceConnectionId(nullptr, x);
        x->removeAllEquivalences();
        x->setUnits(UnitsPtr()); x->setInitialValue(VariablePtr());
        return !r && x->equivalentVariable(99) == nullptr; });
    add("units: null / out-of-range / unknown arguments", [] {
        auto u = Units::create("u"); u->addUnit("second");
        std::string ref, pre, id; double e, mu;
        u->unitAttributes(9, ref, pre, e, mu, id); u->unitAttributes("nope", pre, e, mu, id);
        bool r = u->removeUnit(9) || u->removeUnit("nope") || Units::compatible(nullptr, u) || Units::compatible(u, nullptr) || Units::compatible(nullptr, nullptr)
                 || Units::equivalent(nullptr, u) || Units::equivalent(u, nullptr);
        (void)Units::scalingFactor(nullptr, u); (void)Units::scalingFactor(u, nullptr); (void)Units::scalingFactor(nullptr, nullptr);
        (void)u->unitAttributeReference(9); (void)u->unitAttributePrefix(9); (void)u->unitAttributeExponent(9); (void)u->unitAttributeMultiplier(9); (void)u->unitId(9);
        u->setUnitId(9, "i"); u->setUnitAttributeReference(9, "x");
        (void)u->isBaseUnit(); (void)u->requiresImports(); (void)u->isDefined(); (void)u->isResolved();
        return !r; });
    add("reset / import source / entities: null arguments, equals(null), clone of odd objects", [] {
        auto r = Reset::create(); r->setVariable(nullptr); r->setTestVariable(nullptr); (void)r->clone(); bool a = r->equals(nullptr);
        auto m = base(); bool b = m->equals(nullptr) || m->component(0)->equals(nullptr) || m->component(0)->variable(0)->equals(nullptr) || Units::create("u")->equals(nullptr) || ImportSource::create()->equals(nullptr);
        auto s = ImportSource::create(); s->setModel(nullptr); (void)s->clone();
        ImportSourcePtr ns; auto c = Component::create("i"); c->setImportSource(ns); c->setSourceComponent(ns, "x"); (void)c->isResolved(); (void)c->requiresImports(); (void)c->isDefined();
        auto w = widow(); (void)w->clone(); (void)w->parent(); (void)w->hasAncestor(nullptr);
        Variable::addEquivalence(m->component(0)->variable(0), w); (void)m->clone(); (void)m->component(0)->clone();
        return !a && !b; });

    bool only = false;
    for (auto &p : P) {
        fflush(stdout);
        pid_t pid = fork();
        if (pid == 0) {
            alarm(30);
            bool ok = p.second();
            fflush(stdout);
            _exit(ok ? 0 : 3);
        }
        int st = 0;
        waitpid(pid, &st, 0);
        std::string res;
        if (WIFEXITED(st)) res = WEXITSTATUS(st) == 0 ? "ok" : (WEXITSTATUS(st) == 3 ? "accepted" : "exit" + std::to_string(WEXITSTATUS(st)));
        else if (WIFSIGNALED(st)) res = WTERMSIG(st) == SIGALRM ? "hang" : "crash " + std::to_string(WTERMSIG(st));
        printf("%s\t%s\n", p.first.c_str(), res.c_str());
    }
    (void)only;
    return 0;
}
