// hx_purity: histories of service calls in one process (C12).  One command per line, one output line per command.
// Slots are small integers; every service kind has its own slot table.
//   new parser|parserp|printer|validator|analyser|generator|importer <slot>   (parserp = permissive parser)
//   parse <pslot> <mslot> <file>        -> parse <issues> blanks=<0|1|-> dump=<hash>
//   print <slot> <mslot>                -> print text=<hash> <issues> unchanged=<0|1>
//   validate <slot> <mslot>             -> validate <issues> unchanged=<0|1>
//   analyse <slot> <mslot>              -> analyse type=<t> model=<hash> <issues> unchanged=<0|1>
//   analysex <slot> <mslot> <c> <v>     the same with variable c.v marked as external (plain analyse removes the marks)
//   generate <gslot> <aslot> C|PY       -> generate code=<hash>
//   eqcode <aslot> D|PY                 -> eqcode text=<hash>   (static Generator::equationCode, default / Python profile)
//   resolve <islot> <mslot> <dir>       -> resolve <0|1> <issues>
//   flatten <islot> <mslot> <fslot>     -> flatten null|dump=<hash> <issues> unchanged=<0|1> library=<0|1>
//   clearlib <islot>
//   dump <mslot>                        -> dump <hash>
//   text <mslot>                        -> the full canonical dump, hex (for replays)
// <issues> = n=<count> i=<hash of levels, rules and descriptions>
#include <fstream>
#include <functional>
#include <iostream>
#include <map>
#include <sstream>
#include "hx_common.h"
#include "libcellml/module/libcellml"
#include "hx_dump.h"

static std::string H64(const std::string &s)
{
    // FNV-1a, stable across processes
    unsigned long long h = 1469598103934665603ULL;
    for (unsigned char c : s) { h ^= c; h *= 1099511628211ULL; }
    char b[32]; snprintf(b, sizeof b, "%016llx", h);
    return b;
}
static std::string issueSummary(const LoggerPtr &l)
{
    std::string all;
    for (size_t i = 0; i < l->issueCount(); ++i) {
        auto is = l->issue(i);
        all += std::to_string(int(is->level())) + "/" + std::to_string(int(is->referenceRule())) + "/" + is->description() + "\n";
    }
    return "n=" + std::to_string(l->issueCount()) + " i=" + H64(all);
}
static std::string blanks(const ModelPtr &m)
{
    // does some math string of the model keep white space between two tags?
    bool any = false, kept = false;
    std::function<void(const ComponentPtr &)> go = [&](const ComponentPtr &c) {
        std::vector<std::string> ss = {c->math()};
        for (size_t i = 0; i < c->resetCount(); ++i) { ss.push_back(c->reset(i)->testValue()); ss.push_back(c->reset(i)->resetValue()); }
        for (auto &s : ss) {
            if (s.empty()) continue;
            any = true;
            if (std::regex_search(s, std::regex(">\\s+<"))) kept = true;
        }
        for (size_t i = 0; i < c->componentCount(); ++i) go(c->component(i));
    };
    for (size_t i = 0; i < m->componentCount(); ++i) go(m->component(i));
    return any ? (kept ? "1" : "0") : "-";
}
static std::string analysed(const AnalyserModelPtr &am)
{
    std::string s = "type " + AnalyserModel::typeAsString(am->type()) + "\n";
    if (am->voi() != nullptr) s += "voi " + am->voi()->variable()->name() + "\n";
    for (size_t i = 0; i < am->stateCount(); ++i) s += "state " + am->state(i)->variable()->name() + "\n";
    for (size_t i = 0; i < am->variableCount(); ++i) s += "variable " + am->variable(i)->variable()->name() + " " + AnalyserVariable::typeAsString(am->variable(i)->type()) + "\n";
    for (size_t i = 0; i < am->equationCount(); ++i) s += "equation " + AnalyserEquation::typeAsString(am->equation(i)->type()) + " " + std::to_string(am->equation(i)->variableCount()) + "\n";
    return s;
}

int main()
{
    std::map<int, ParserPtr> parsers;
    std::map<int, PrinterPtr> printers;
    std::map<int, ValidatorPtr> validators;
    std::map<int, AnalyserPtr> analysers;
    std::map<int, GeneratorPtr> generators;
    std::map<int, ImporterPtr> importers;
    std::map<int, ModelPtr> models;
    std::string line;
    while (std::getline(std::cin, line)) {
        auto t = hx::tokens(line);
        if (t.empty()) continue;
        const std::string &c = t[0];
        auto slot = [&](size_t i) { return std::stoi(t.at(i)); };
        if (c == "new") {
            int s = slot(2);
            if (t[1] == "parser") parsers[s] = Parser::create(true);
            else if (t[1] == "parserp") parsers[s] = Parser::create(false);
            else if (t[1] == "printer") printers[s] = Printer::create();
            else if (t[1] == "validator") validators[s] = Validator::create();
            else if (t[1] == "analyser") analysers[s] = Analyser::create();
            else if (t[1] == "generator") generators[s] = Generator::create();
            else if (t[1] == "importer") importers[s] = Importer::create(true);
            std::cout << "ok" << std::endl;
        } else if (c == "parse") {
            std::ifstream f(t.at(3));
            std::stringstream b; b << f.rdbuf();
            auto p = parsers.at(slot(1));
            auto m = p->parseModel(b.str());
            models[slot(2)] = m;
            std::cout << "parse " << issueSummary(p) << " blanks=" << blanks(m) << " dump=" << H64(dump(m)) << std::endl;
        } else if (c == "print") {
            auto m = models.at(slot(2));
            auto before = dump(m);
            auto p = printers.at(slot(1));
            auto s = p->printModel(m);
            std::cout << "print text=" << H64(s) << " " << issueSummary(p) << " unchanged=" << (dump(m) == before ? 1 : 0) << std::endl;
        } else if (c == "validate") {
            auto m = models.at(slot(2));
            auto before = dump(m);
            auto v = validators.at(slot(1));
            v->validateModel(m);
            std::cout << "validate " << issueSummary(v) << " unchanged=" << (dump(m) == before ? 1 : 0) << std::endl;
        } else if (c == "analyse" || c == "analysex") {
            // analysex <aslot> <mslot> <component> <variable>: with that variable marked as external
            auto m = models.at(slot(2));
            auto before = dump(m);
            auto a = analysers.at(slot(1));
            a->removeAllExternalVariables();
            if (c == "analysex") {
                auto comp = m->component(t.at(3), true);
                auto var = comp == nullptr ? nullptr : comp->variable(t.at(4));
                if (var != nullptr) a->addExternalVariable(AnalyserExternalVariable::create(var));
            }
            a->analyseModel(m);
            std::cout << "analyse type=" << AnalyserModel::typeAsString(a->model()->type()) << " model=" << H64(analysed(a->model())) << " " << issueSummary(a) << " unchanged=" << (dump(m) == before ? 1 : 0) << std::endl;
        } else if (c == "generate") {
            auto g = generators.at(slot(1));
            auto a = analysers.at(slot(2));
            g->setModel(a->model());
            g->setProfile(GeneratorProfile::create(t.at(3) == "PY" ? GeneratorProfile::Profile::PYTHON : GeneratorProfile::Profile::C));
            std::cout << "generate code=" << H64(g->interfaceCode() + "\n=====\n" + g->implementationCode()) << std::endl;
        } else if (c == "analysenull") {
            // analyseModel(nullptr): the analyser must forget what it analysed before
            auto a = analysers.at(slot(1));
            a->analyseModel(nullptr);
            std::cout << "analyse type=" << AnalyserModel::typeAsString(a->model()->type()) << " model=" << H64(analysed(a->model())) << " " << issueSummary(a) << " unchanged=1" << std::endl;
        } else if (c == "eqcode") {
            // eqcode <aslot> D|PY: Generator::equationCode of every equation of the analysed model, with the default profile
            // (no profile argument) or with an explicit Python profile
            auto a = analysers.at(slot(1));
            std::string all;
            auto am = a->model();
            for (size_t i = 0; am != nullptr && i < am->equationCount(); ++i) {
                auto ast = am->equation(i)->ast();
                if (ast == nullptr) continue;
                all += (t.at(2) == "PY" ? Generator::equationCode(ast, GeneratorProfile::create(GeneratorProfile::Profile::PYTHON)) : Generator::equationCode(ast)) + "\n";
            }
            std::cout << "eqcode text=" << H64(all) << std::endl;
        } else if (c == "resolve") {
            auto im = importers.at(slot(1));
            auto m = models.at(slot(2));
            bool ok = im->resolveImports(m, t.at(3));
            std::cout << "resolve " << (ok ? 1 : 0) << " " << issueSummary(im) << std::endl;
        } else if (c == "flatten") {
            auto im = importers.at(slot(1));
            auto m = models.at(slot(2));
            auto before = dump(m);
            std::string lib0;
            for (size_t i = 0; i < im->libraryCount(); ++i) lib0 += dump(im->library(i));
            auto f = im->flattenModel(m);
            std::string lib1;
            for (size_t i = 0; i < im->libraryCount(); ++i) lib1 += dump(im->library(i));
            models[slot(3)] = f;
            std::cout << "flatten " << (f == nullptr ? std::string("null") : "dump=" + H64(dump(f))) << " " << issueSummary(im) << " unchanged=" << (dump(m) == before ? 1 : 0) << " library=" << (lib0 == lib1 ? 1 : 0) << std::endl;
        } else if (c == "clearlib") {
            importers.at(slot(1))->removeAllModels();
            std::cout << "ok" << std::endl;
        } else if (c == "dump") {
            std::cout << "dump " << H64(dump(models.at(slot(1)))) << std::endl;
        } else if (c == "text") {
            std::cout << "text " << hx::H(dump(models.at(slot(1)))) << std::endl;
        } else {
            std::cout << "bad-op" << std::endl;
        }
    }
    return 0;
}
