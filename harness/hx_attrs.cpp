// Engine `attrs` (C02): the attributes of one <unit> / <variable> through the real parser, the object model and the printer.
//   (unit (a #name #value)…)      -> (stored #ref #prefix #exp #mult #id) (printed (a #name #value)…)
//   (variable (a #name #value)…)  -> (stored #name #units #initial #interface #id) (printed …)
#include <iomanip>
#include <regex>
#include "hx_common.h"
#include "libcellml/module/libcellml"
using namespace libcellml;

static std::string H(const std::string &s) { std::string h = hx::toHex(s); return "#" + (h == "-" ? std::string() : h); }
static std::string unH(const std::string &a) { std::string o; hx::fromHex(a.size() > 1 ? a.substr(1) : "-", o); return o; }
static std::string esc(const std::string &s)
{
    std::string r;
    for (char c : s) { if (c == '&') r += "&amp;"; else if (c == '<') r += "&lt;"; else if (c == '"') r += "&quot;"; else r.push_back(c); }
    return r;
}
static std::string unesc(std::string s)
{
    const char *e[][2] = {{"&lt;", "<"}, {"&gt;", ">"}, {"&quot;", "\""}, {"&apos;", "'"}, {"&amp;", "&"}};
    for (auto &p : e) { size_t i = 0; while ((i = s.find(p[0], i)) != std::string::npos) { s.replace(i, strlen(p[0]), p[1]); i += 1; } }
    return s;
}
static std::string num(double d)
{
    std::ostringstream o; o << std::setprecision(15) << d; return o.str();
}
static std::string printedAttrs(const std::string &text, const std::string &tag)
{
    std::smatch m;
    std::string r = "(printed";
    if (std::regex_search(text, m, std::regex("<" + tag + "\\b([^>]*?)/?>"))) {
        std::string attrs = m[1].str();
        std::regex a("([A-Za-z_:]+)=\"([^\"]*)\"");
        for (auto it = std::sregex_iterator(attrs.begin(), attrs.end(), a); it != std::sregex_iterator(); ++it)
            r += " (a " + H((*it)[1].str()) + " " + H(unesc((*it)[2].str())) + ")";
    }
    return r + ")";
}

int main()
{
    std::string line;
    while (std::getline(std::cin, line)) {
        hx::Sexp e;
        size_t i = 0;
        if (!hx::parseSexp(line, i, e) || (e.head() != "unit" && e.head() != "variable")) { puts("bad-line"); continue; }
        std::string attrs;
        for (size_t k = 1; k < e.size(); ++k) attrs += " " + unH(e[k][1].atom) + "=\"" + esc(unH(e[k][2].atom)) + "\"";
        bool unit = e.head() == "unit";
        std::string doc = "<?xml version=\"1.0\" encoding=\"UTF-8\"?>\n<model xmlns=\"http://www.cellml.org/cellml/2.0#\" name=\"m\">"
                          + (unit ? "<units name=\"uu\"><unit" + attrs + "/></units>" : "<component name=\"c\"><variable" + attrs + "/></component>") + "</model>";
        auto m = Parser::create()->parseModel(doc);
        std::string out;
        if (unit) {
            if (m->unitsCount() != 1 || m->units(0)->unitCount() != 1) { puts("no-unit"); fflush(stdout); continue; }
            std::string ref, pre, id; double ex, mu;
            m->units(0)->unitAttributes(0, ref, pre, ex, mu, id);
            out = "(stored " + H(ref) + " " + H(pre) + " " + H(num(ex)) + " " + H(num(mu)) + " " + H(id) + ") ";
        } else {
            if (m->componentCount() != 1 || m->component(0)->variableCount() != 1) { puts("no-variable"); fflush(stdout); continue; }
            auto v = m->component(0)->variable(0);
            out = "(stored " + H(v->name()) + " " + H(v->units() != nullptr ? v->units()->name() : "") + " " + H(v->initialValue()) + " " + H(v->interfaceType()) + " " + H(v->id()) + ") ";
        }
        out += printedAttrs(Printer::create()->printModel(m), unit ? "unit" : "variable");
        puts(out.c_str());
        fflush(stdout);
    }
    return 0;
}
