// Engine `annot` (C13): the real Annotator on a real model.
//   (annot M (equivs (e <compPath> <varIdx> <compPath> <varIdx> <mapId> <connId>)*) (ops OP*))
//   -> (shape (kinds k*) (visits v*) (init #id*)) (r RES*)     RES = (<result> (ids #id*)) after each op
// Slots and the visit sequence are computed here by an independent traversal of the object graph (the order
// documented for doSetAllAutomaticIds); exact identifiers are compared with the model, so a wrong traversal on
// either side shows up as a disagreement.
#include "hx_entity.h"
#include "utilities.h"
#include "commonutils.h"
#include <algorithm>
#include <functional>
#include <regex>
#include <set>
using namespace libcellml;

struct Slot {
    CellmlElementType kind;
    ModelPtr model; ComponentPtr comp; VariablePtr v1, v2, a1, a2; ResetPtr reset; UnitsPtr units; size_t index = 0; ImportSourcePtr imp;
};

static std::vector<Slot> gSlots;
static std::vector<size_t> gVisits;

static ComponentPtr compAt(const ModelPtr &m, const std::string &path)
{
    ComponentPtr c;
    std::stringstream ss(path);
    std::string item;
    bool first = true;
    while (std::getline(ss, item, '.')) {
        size_t i = size_t(atol(item.c_str()));
        c = first ? m->component(i) : c->component(i);
        first = false;
    }
    return c;
}

static std::string getId(const Slot &s)
{
    switch (s.kind) {
    case CellmlElementType::MODEL: return s.model->id();
    case CellmlElementType::ENCAPSULATION: return s.model->encapsulationId();
    case CellmlElementType::IMPORT: return s.imp->id();
    case CellmlElementType::UNITS: return s.units->id();
    case CellmlElementType::UNIT: return s.units->unitId(s.index);
    case CellmlElementType::COMPONENT: return s.comp->id();
    case CellmlElementType::COMPONENT_REF: return s.comp->encapsulationId();
    case CellmlElementType::VARIABLE: return s.v1->id();
    case CellmlElementType::CONNECTION: return Variable::equivalenceConnectionId(s.v1, s.v2);
    case CellmlElementType::MAP_VARIABLES: return Variable::equivalenceMappingId(s.v1, s.v2);
    case CellmlElementType::RESET: return s.reset->id();
    case CellmlElementType::RESET_VALUE: return s.reset->resetValueId();
    case CellmlElementType::TEST_VALUE: return s.reset->testValueId();
    default: return "";
    }
}

static void setIdDirect(const Slot &s, const std::string &id)
{
    switch (s.kind) {
    case CellmlElementType::MODEL: s.model->setId(id); break;
    case CellmlElementType::ENCAPSULATION: s.model->setEncapsulationId(id); break;
    case CellmlElementType::IMPORT: s.imp->setId(id); break;
    case CellmlElementType::UNITS: s.units->setId(id); break;
    case CellmlElementType::UNIT: s.units->setUnitId(s.index, id); break;
    case CellmlElementType::COMPONENT: s.comp->setId(id); break;
    case CellmlElementType::COMPONENT_REF: s.comp->setEncapsulationId(id); break;
    case CellmlElementType::VARIABLE: s.v1->setId(id); break;
    case CellmlElementType::CONNECTION: Variable::setEquivalenceConnectionId(s.v1, s.v2, id); break;
    case CellmlElementType::MAP_VARIABLES: Variable::setEquivalenceMappingId(s.v1, s.v2, id); break;
    case CellmlElementType::RESET: s.reset->setId(id); break;
    case CellmlElementType::RESET_VALUE: s.reset->setResetValueId(id); break;
    case CellmlElementType::TEST_VALUE: s.reset->setTestValueId(id); break;
    default: break;
    }
}

static std::string assignIdVia(const AnnotatorPtr &a, const Slot &s, bool alternate = false)
{
    if (alternate && s.kind == CellmlElementType::CONNECTION && s.a1 != nullptr) return a->assignId(s.a2, s.a1, CellmlElementType::CONNECTION);
    if (alternate && s.kind == CellmlElementType::MAP_VARIABLES) return a->assignId(s.v2, s.v1, CellmlElementType::MAP_VARIABLES);
    switch (s.kind) {
    case CellmlElementType::MODEL: return a->assignId(s.model, CellmlElementType::MODEL);
    case CellmlElementType::ENCAPSULATION: return a->assignId(s.model, CellmlElementType::ENCAPSULATION);
    case CellmlElementType::IMPORT: return a->assignId(s.imp);
    case CellmlElementType::UNITS: return a->assignId(s.units);
    case CellmlElementType::UNIT: return a->assignId(s.units, s.index);
    case CellmlElementType::COMPONENT: return a->assignId(s.comp, CellmlElementType::COMPONENT);
    case CellmlElementType::COMPONENT_REF: return a->assignId(s.comp, CellmlElementType::COMPONENT_REF);
    case CellmlElementType::VARIABLE: return a->assignId(s.v1);
    case CellmlElementType::CONNECTION: return a->assignId(s.v1, s.v2, CellmlElementType::CONNECTION);
    case CellmlElementType::MAP_VARIABLES: return a->assignId(s.v1, s.v2, CellmlElementType::MAP_VARIABLES);
    case CellmlElementType::RESET: return a->assignId(s.reset, CellmlElementType::RESET);
    case CellmlElementType::RESET_VALUE: return a->assignId(s.reset, CellmlElementType::RESET_VALUE);
    case CellmlElementType::TEST_VALUE: return a->assignId(s.reset, CellmlElementType::TEST_VALUE);
    default: return "";
    }
}

static size_t findOrAdd(const Slot &s, const std::function<bool(const Slot &)> &same)
{
    for (size_t i = 0; i < gSlots.size(); ++i) if (gSlots[i].kind == s.kind && same(gSlots[i])) return i;
    gSlots.push_back(s);
    return gSlots.size() - 1;
}

static void visit(size_t i) { gVisits.push_back(i); }

static void collectImportedComponents(const ComponentEntityPtr &ce, std::vector<ComponentPtr> &out)
{
    for (size_t i = 0; i < ce->componentCount(); ++i) {
        auto c = ce->component(i);
        if (c->isImport()) out.push_back(c);
        collectImportedComponents(c, out);
    }
}

static void walkComponent(const ComponentPtr &c)
{
    Slot s; s.kind = CellmlElementType::COMPONENT; s.comp = c;
    visit(findOrAdd(s, [&](const Slot &o) { return o.comp == c; }));
    Slot r; r.kind = CellmlElementType::COMPONENT_REF; r.comp = c;
    size_t ri = findOrAdd(r, [&](const Slot &o) { return o.comp == c; });
    bool inHierarchy = std::dynamic_pointer_cast<Model>(c->parent()) == nullptr || c->componentCount() > 0;
    if (inHierarchy) visit(ri);
    for (size_t v = 0; v < c->variableCount(); ++v) {
        Slot vs; vs.kind = CellmlElementType::VARIABLE; vs.v1 = c->variable(v);
        visit(findOrAdd(vs, [&](const Slot &o) { return o.v1 == vs.v1; }));
    }
    for (size_t v = 0; v < c->variableCount(); ++v) {
        auto v1 = c->variable(v);
        for (size_t e = 0; e < v1->equivalentVariableCount(); ++e) {
            auto v2 = v1->equivalentVariable(e);
            auto c1 = owningComponent(v1), c2 = owningComponent(v2);
            Slot cs; cs.kind = CellmlElementType::CONNECTION; cs.v1 = v1; cs.v2 = v2;
            size_t ci = findOrAdd(cs, [&](const Slot &o) {
                auto o1 = owningComponent(o.v1), o2 = owningComponent(o.v2);
                return (o1 == c1 && o2 == c2) || (o1 == c2 && o2 == c1);
            });
            gSlots[ci].a1 = v1; gSlots[ci].a2 = v2;     // the pair through which the connection was reached last
            visit(ci);
            Slot ms; ms.kind = CellmlElementType::MAP_VARIABLES; ms.v1 = v1; ms.v2 = v2;
            visit(findOrAdd(ms, [&](const Slot &o) { return (o.v1 == v1 && o.v2 == v2) || (o.v1 == v2 && o.v2 == v1); }));
        }
    }
    for (size_t k = 0; k < c->resetCount(); ++k) {
        auto reset = c->reset(k);
        for (auto kind : {CellmlElementType::RESET, CellmlElementType::RESET_VALUE, CellmlElementType::TEST_VALUE}) {
            Slot rs; rs.kind = kind; rs.reset = reset;
            visit(findOrAdd(rs, [&](const Slot &o) { return o.reset == reset; }));
        }
    }
    for (size_t k = 0; k < c->componentCount(); ++k) walkComponent(c->component(k));
}

static void computeShape(const ModelPtr &m)
{
    gSlots.clear(); gVisits.clear();
    Slot ms; ms.kind = CellmlElementType::MODEL; ms.model = m;
    visit(findOrAdd(ms, [&](const Slot &) { return true; }));
    std::vector<ComponentPtr> ic;
    collectImportedComponents(m, ic);
    std::vector<ImportSourcePtr> srcs;
    for (auto &c : ic) srcs.push_back(c->importSource());
    for (size_t u = 0; u < m->unitsCount(); ++u) if (m->units(u)->isImport()) srcs.push_back(m->units(u)->importSource());
    for (auto &src : srcs) {
        Slot is; is.kind = CellmlElementType::IMPORT; is.imp = src;
        visit(findOrAdd(is, [&](const Slot &o) { return o.imp == src; }));
    }
    for (size_t u = 0; u < m->unitsCount(); ++u) {
        Slot us; us.kind = CellmlElementType::UNITS; us.units = m->units(u);
        visit(findOrAdd(us, [&](const Slot &o) { return o.units == us.units; }));
    }
    for (size_t u = 0; u < m->unitsCount(); ++u) {
        auto units = m->units(u);
        for (size_t i = 0; i < units->unitCount(); ++i) {
            Slot is; is.kind = CellmlElementType::UNIT; is.units = units; is.index = i;
            visit(findOrAdd(is, [&](const Slot &o) { return o.units == units && o.index == i; }));
        }
    }
    for (size_t c = 0; c < m->componentCount(); ++c) walkComponent(m->component(c));
    Slot es; es.kind = CellmlElementType::ENCAPSULATION; es.model = m;
    visit(findOrAdd(es, [&](const Slot &) { return true; }));
}

// the n-th (modulo) slot of a kind, or npos
static size_t slotOfKind(int kind, size_t n)
{
    std::vector<size_t> idx;
    for (size_t i = 0; i < gSlots.size(); ++i) if (int(gSlots[i].kind) == kind) idx.push_back(i);
    if (idx.empty()) return size_t(-1);
    return idx[n % idx.size()];
}

static std::string idsDump()
{
    std::string r = "(ids";
    for (auto &s : gSlots) r += " " + hx::H(getId(s));
    return r + ")";
}

static long slotOfItem(const AnyCellmlElementPtr &it)
{
    if (it == nullptr || it->type() == CellmlElementType::UNDEFINED) return -1;
    for (size_t i = 0; i < gSlots.size(); ++i) {
        const auto &s = gSlots[i];
        if (s.kind != it->type()) continue;
        switch (s.kind) {
        case CellmlElementType::MODEL: case CellmlElementType::ENCAPSULATION: if (it->model() == s.model) return long(i); break;
        case CellmlElementType::IMPORT: if (it->importSource() == s.imp) return long(i); break;
        case CellmlElementType::UNITS: if (it->units() == s.units) return long(i); break;
        case CellmlElementType::UNIT: if (it->unitsItem() != nullptr && it->unitsItem()->units() == s.units && it->unitsItem()->index() == s.index) return long(i); break;
        case CellmlElementType::COMPONENT: case CellmlElementType::COMPONENT_REF: if (it->component() == s.comp) return long(i); break;
        case CellmlElementType::VARIABLE: if (it->variable() == s.v1) return long(i); break;
        case CellmlElementType::CONNECTION: {
            auto p = it->variablePair();
            if (p == nullptr) break;
            auto o1 = owningComponent(p->variable1()), o2 = owningComponent(p->variable2());
            auto c1 = owningComponent(s.v1), c2 = owningComponent(s.v2);
            if ((o1 == c1 && o2 == c2) || (o1 == c2 && o2 == c1)) return long(i);
        } break;
        case CellmlElementType::MAP_VARIABLES: {
            auto p = it->variablePair();
            if (p == nullptr) break;
            if ((p->variable1() == s.v1 && p->variable2() == s.v2) || (p->variable1() == s.v2 && p->variable2() == s.v1)) return long(i);
        } break;
        case CellmlElementType::RESET: case CellmlElementType::RESET_VALUE: case CellmlElementType::TEST_VALUE: if (it->reset() == s.reset) return long(i); break;
        default: break;
        }
    }
    return -2;
}

static std::string listOf(const std::vector<std::string> &v)
{
    std::string r = "(l";
    for (auto &x : v) r += " " + hx::H(x);
    return r + ")";
}

static ModelPtr buildWithEquivs(const hx::Sexp &e, std::string &err)
{
    auto model = hxe::buildModel(e[1]);
    const auto &eq = e[2];
    for (size_t i = 1; i < eq.size(); ++i) {
        const auto &q = eq[i];
        auto c1 = compAt(model, q[1].atom), c2 = compAt(model, q[3].atom);
        if (c1 == nullptr || c2 == nullptr) { err = "bad-equiv"; return nullptr; }
        auto v1 = c1->variable(size_t(atol(q[2].atom.c_str()))), v2 = c2->variable(size_t(atol(q[4].atom.c_str())));
        if (v1 == nullptr || v2 == nullptr) { err = "bad-equiv"; return nullptr; }
        Variable::addEquivalence(v1, v2);
        Variable::setEquivalenceMappingId(v1, v2, q[5].text());
        Variable::setEquivalenceConnectionId(v1, v2, q[6].text());
    }
    return model;
}

static std::string run(const hx::Sexp &e)
{
    std::string err;
    auto model = buildWithEquivs(e, err);
    if (model == nullptr) return err;
    // a second model object with the same content (what a re-parse or a clone gives)
    auto modelB = buildWithEquivs(e, err);
    computeShape(modelB);
    std::vector<Slot> slotsB = gSlots;
    std::vector<size_t> visitsB = gVisits;
    computeShape(model);
    std::ostringstream out;
    out << "(shape (kinds";
    for (auto &s : gSlots) out << " " << int(s.kind);
    out << ") (visits";
    for (auto v : gVisits) out << " " << v;
    out << ") (init";
    for (auto &s : gSlots) out << " " << hx::H(getId(s));
    out << ")) (r";
    auto annotator = Annotator::create();
    const auto &ops = e[3];
    for (size_t i = 1; i < ops.size(); ++i) {
        const auto &op = ops[i];
        std::string h = op.head(), res = "ok";
        if (h == "setmodel") annotator->setModel(model);
        else if (h == "switch") { std::swap(model, modelB); std::swap(gSlots, slotsB); annotator->setModel(model); }
        else if (h == "edit") { size_t k = size_t(atol(op[1].atom.c_str())); if (k < gSlots.size()) setIdDirect(gSlots[k], op[2].text()); }
        else if (h == "assignall") res = annotator->assignAllIds() ? "b1" : "b0";
        else if (h == "assignids") res = annotator->assignIds(CellmlElementType(atoi(op[1].atom.c_str()))) ? "b1" : "b0";
        else if (h == "assignid") { size_t k = size_t(atol(op[1].atom.c_str())); res = k < gSlots.size() ? hx::H(assignIdVia(annotator, gSlots[k])) : "#"; }
        // the same item addressed through another of its handles (the last variable pair of the connection, the pair reversed)
        else if (h == "assignid2") { size_t k = size_t(atol(op[1].atom.c_str())); res = k < gSlots.size() ? hx::H(assignIdVia(annotator, gSlots[k], true)) : "#"; }
        else if (h == "assignidk" || h == "assignid2k") {
            size_t k = slotOfKind(atoi(op[1].atom.c_str()), size_t(atol(op[2].atom.c_str())));
            res = k != size_t(-1) ? hx::H(assignIdVia(annotator, gSlots[k], h == "assignid2k")) : "#";
        } else if (h == "editk") {
            size_t k = slotOfKind(atoi(op[1].atom.c_str()), size_t(atol(op[2].atom.c_str())));
            if (k != size_t(-1)) setIdDirect(gSlots[k], op[3].text());
        }
        else if (h == "clearall") annotator->clearAllIds();
        else if (h == "item") { long k = slotOfItem(annotator->item(op[1].text())); res = k >= 0 ? "i" + std::to_string(k) : (k == -1 ? "none" : "unknown-object"); }
        else if (h == "itemi" || h == "compi") {
            // indexed lookups item(id, index) / component(id, index): some = an item that carries the id, wrong = another item,
            // none1 / none0 = nothing, with / without an issue that explains it
            std::string id = op[1].text();
            size_t idx = size_t(atol(op[2].atom.c_str()));
            if (h == "itemi") {
                long k = slotOfItem(annotator->item(id, idx));
                res = k >= 0 ? (getId(gSlots[size_t(k)]) == id ? "some" : "wrong") : (k == -1 ? (annotator->issueCount() > 0 ? "none1" : "none0") : "unknown-object");
            } else {
                auto c = annotator->component(id, idx);
                res = c != nullptr ? (c->id() == id ? "some" : "wrong") : (annotator->issueCount() > 0 ? "none1" : "none0");
            }
        }
        else if (h == "count") res = "n" + std::to_string(annotator->itemCount(op[1].text()));
        else if (h == "printauto") {
            // Printer::printModel(model, true): (p <model unchanged> <elements left without id> <elements without id in the plain print> <generated ids, sorted>)
            auto printer = Printer::create();
            std::string before = idsDump();
            std::string plain = printer->printModel(model, false);
            std::string autoText = printer->printModel(model, true);
            bool unchanged = idsDump() == before && printer->printModel(model, false) == plain;
            auto idsIn = [](std::string t, size_t &without) {
                std::multiset<std::string> ids;
                without = 0;
                t = std::regex_replace(t, std::regex("<math[\\s\\S]*?</math>"), "");
                static const std::regex tag("<(model|import|units|unit|component|variable|reset|test_value|reset_value|connection|map_variables|encapsulation|component_ref)\\b([^>]*)>");
                for (auto it = std::sregex_iterator(t.begin(), t.end(), tag); it != std::sregex_iterator(); ++it) {
                    std::string attrs = (*it)[2].str();
                    std::smatch m;
                    if (std::regex_search(attrs, m, std::regex("(^|\\s)id=\"([^\"]*)\""))) ids.insert(m[2].str());
                    else ++without;
                }
                return ids;
            };
            size_t k = 0, missing = 0;
            auto plainIds = idsIn(plain, k);
            auto autoIds = idsIn(autoText, missing);
            std::vector<std::string> gen;
            for (auto &i : autoIds) {
                auto it = plainIds.find(i);
                if (it != plainIds.end()) plainIds.erase(it); else gen.push_back(i);
            }
            std::sort(gen.begin(), gen.end(), [](const std::string &a, const std::string &b) { return a.size() != b.size() ? a.size() < b.size() : a < b; });
            res = "(p " + std::string(unchanged ? "1" : "0") + " " + std::to_string(missing + plainIds.size()) + " " + std::to_string(k);
            for (auto &g : gen) res += " " + hx::H(g);
            res += ")";
        }
        else if (h == "ids") res = listOf(annotator->ids());
        else if (h == "dups") res = listOf(annotator->duplicateIds());
        else return "bad-op";
        out << " (" << res << " " << idsDump() << ")";
    }
    out << ")";
    return out.str();
}

int main()
{
    std::string line;
    while (std::getline(std::cin, line)) {
        hx::Sexp e;
        size_t i = 0;
        if (!hx::parseSexp(line, i, e) || e.head() != "annot" || e.size() != 4) { puts("bad-line"); continue; }
        std::string r = hx::forked([&]() { return run(e); });
        printf("%s\n", r.c_str());
        fflush(stdout);
    }
    return 0;
}
