// Engine `equiv` (C18): the real equivalence queries and the real cache key.
//   K <a> <b>                                  -> K <lo> <hi>          AnalyserModelImpl::equivalenceCacheKey
//   G <n> E:a-b,... Q:a-b,...                  -> R H:<bits> C:<bits> size=<cache size> A:<addr>,...
//   P <a0>,<a1>,... E:a-b,... Q:a-b,...        -> same as G, with the n variables placed at the given addresses
//                                                 (arena operator new); "ARENA-UNAVAILABLE" if the pages cannot be mapped
#include "hx_common.h"
#include <map>
#include <new>
#include <sys/mman.h>
#define private public
#define protected public
#include "libcellml/module/libcellml"
#include "analysermodel_p.h"
#undef private
#undef protected

using namespace libcellml;

// ---- placement arena -------------------------------------------------------------------------
static std::vector<uintptr_t> gPlace;
static size_t gPlaceIdx = 0;
static bool gArmed = false;
static uintptr_t gArenaLo = 0, gArenaHi = 0;
static std::vector<std::pair<uintptr_t, uintptr_t>> gArenas;

static bool inArena(void *p)
{
    auto u = reinterpret_cast<uintptr_t>(p);
    for (auto &a : gArenas) if (u >= a.first && u < a.second) return true;
    return false;
}

void *operator new(std::size_t sz)
{
    if (gArmed && sz == sizeof(Variable) && gPlaceIdx < gPlace.size()) {
        return reinterpret_cast<void *>(gPlace[gPlaceIdx++]);
    }
    void *p = malloc(sz ? sz : 1);
    if (p == nullptr) throw std::bad_alloc();
    return p;
}
void operator delete(void *p) noexcept { if (p != nullptr && !inArena(p)) free(p); }
void operator delete(void *p, std::size_t) noexcept { if (p != nullptr && !inArena(p)) free(p); }

static bool mapArena(const std::vector<uintptr_t> &addrs)
{
    const uintptr_t page = 4096;
    for (auto a : addrs) {
        uintptr_t lo = a & ~(page - 1), hi = ((a + sizeof(Variable) + page) & ~(page - 1));
        for (uintptr_t p = lo; p < hi; p += page) {
            if (inArena(reinterpret_cast<void *>(p))) continue;
            void *r = mmap(reinterpret_cast<void *>(p), page, PROT_READ | PROT_WRITE, MAP_PRIVATE | MAP_ANONYMOUS | MAP_FIXED_NOREPLACE, -1, 0);
            if (r == MAP_FAILED || r != reinterpret_cast<void *>(p)) return false;
            gArenas.push_back({p, p + page});
        }
    }
    return true;
}

// the cache key, whatever type the current tree gives it (pair of words, single word, ...)
template <class A, class B>
static std::string keyStr(const std::pair<A, B> &k)
{
    char b[64];
    snprintf(b, sizeof b, "%llx %llx", (unsigned long long)k.first, (unsigned long long)k.second);
    return b;
}
template <class T>
static std::string keyStr(const T &k)
{
    char b[64];
    snprintf(b, sizeof b, "word %llx", (unsigned long long)k);
    return b;
}

// ---- parsing -----------------------------------------------------------------------------------
static bool parsePairs(const std::string &s, std::vector<std::pair<size_t, size_t>> &out)
{
    std::stringstream ss(s);
    std::string item;
    while (std::getline(ss, item, ',')) {
        if (item.empty()) continue;
        auto d = item.find('-');
        if (d == std::string::npos) return false;
        out.push_back({size_t(atol(item.substr(0, d).c_str())), size_t(atol(item.substr(d + 1).c_str()))});
    }
    return true;
}

static std::string field(const std::vector<std::string> &t, const std::string &pre)
{
    for (auto &x : t) if (x.rfind(pre, 0) == 0) return x.substr(pre.size());
    return "";
}

static std::string runGraph(size_t n, const std::vector<uintptr_t> &place, const std::string &es, const std::string &qs, const std::string &outside = "")
{
    std::vector<std::pair<size_t, size_t>> edges, queries;
    if (!parsePairs(es, edges) || !parsePairs(qs, queries)) return "bad-line";
    if (!place.empty()) {
        if (!mapArena(place)) return "ARENA-UNAVAILABLE";
        gPlace = place; gPlaceIdx = 0;
    }
    auto model = Model::create("m");
    auto comp = Component::create("c");
    model->addComponent(comp);
    std::vector<VariablePtr> vs;
    for (size_t i = 0; i < n; ++i) {
        size_t before = gPlaceIdx;
        gArmed = !place.empty();
        auto v = Variable::create();
        gArmed = false;
        if (!place.empty() && (gPlaceIdx != before + 1 || reinterpret_cast<uintptr_t>(v.get()) != place[i])) return "ARENA-PLACEMENT-FAILED";
        v->setName("v" + std::to_string(i));
        vs.push_back(v);
        comp->addVariable(v);
    }
    gArmed = false;
    for (auto &e : edges) {
        if (e.first >= n || e.second >= n) return "bad-line";
        Variable::addEquivalence(vs[e.first], vs[e.second]);
    }
    // variables that leave the model once the equivalences are made (their equivalences and the caller's pointers stay):
    // alternately removed from their component and moved into a component of another model
    auto otherModel = Model::create("other");
    auto otherComp = Component::create("oc");
    otherModel->addComponent(otherComp);
    {
        std::stringstream ss(outside);
        std::string item;
        size_t k = 0;
        while (std::getline(ss, item, ',')) {
            if (item.empty()) continue;
            size_t i = size_t(atol(item.c_str()));
            if (i >= n) return "bad-line";
            if (k++ % 2 == 0) comp->removeVariable(vs[i]);
            else otherComp->addVariable(vs[i]);
        }
    }
    auto am = AnalyserModel::AnalyserModelImpl::create(model);
    std::string h, c;
    for (auto &q : queries) {
        if (q.first >= n || q.second >= n) return "bad-line";
        h.push_back(vs[q.first]->hasEquivalentVariable(vs[q.second], true) ? '1' : '0');
        c.push_back(am->areEquivalentVariables(vs[q.first], vs[q.second]) ? '1' : '0');
    }
    std::ostringstream o;
    o << "R H:" << h << " C:" << c << " size=" << am->mPimpl->mCachedEquivalentVariables.size() << " A:";
    for (size_t i = 0; i < n; ++i) o << std::hex << reinterpret_cast<uintptr_t>(vs[i].get()) << ",";
    return o.str();
}

int main()
{
    std::string line;
    while (std::getline(std::cin, line)) {
        auto t = hx::tokens(line);
        if (t.size() == 3 && t[0] == "K") {
            auto k = AnalyserModel::AnalyserModelImpl::equivalenceCacheKey(uintptr_t(strtoull(t[1].c_str(), nullptr, 16)), uintptr_t(strtoull(t[2].c_str(), nullptr, 16)));
            printf("K %s\n", keyStr(k).c_str());
        } else if (t.size() >= 2 && t[0] == "G") {
            size_t n = size_t(atol(t[1].c_str()));
            std::string es = field(t, "E:"), qs = field(t, "Q:");
            std::string os = field(t, "O:");
            std::string r = hx::forked([&]() { return runGraph(n, {}, es, qs, os); });
            printf("%s\n", r.c_str());
        } else if (t.size() >= 2 && t[0] == "P") {
            std::vector<uintptr_t> place;
            std::stringstream ss(t[1]);
            std::string item;
            while (std::getline(ss, item, ',')) if (!item.empty()) place.push_back(uintptr_t(strtoull(item.c_str(), nullptr, 16)));
            std::string es = field(t, "E:"), qs = field(t, "Q:");
            std::string r = hx::forked([&]() { return runGraph(place.size(), place, es, qs); });
            printf("%s\n", r.c_str());
        } else {
            puts("bad-line");
        }
        fflush(stdout);
    }
    return 0;
}
